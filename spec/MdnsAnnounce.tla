---- MODULE MdnsAnnounce ----
(***************************************************************************)
(* C16, the part that is a state machine: what the mDNS manager has        *)
(* published at its provider after any sequence of AnnounceMdnsEntry,      *)
(* UnannounceMdnsEntry and SetAutoAccept calls - with provider             *)
(* announcements that may fail - carries the CURRENT configuration         *)
(* (mdns/mdns.go: AnnounceMdnsEntry builds the TXT record from the         *)
(* manager's fields, SetAutoAccept re-announces while announced).          *)
(* The one configuration item that can change after construction is the    *)
(* auto accept flag (TXT key register).                                    *)
(*   auto       the manager's flag                                          *)
(*   announced  the manager believes it is announced                        *)
(*   pub        what the provider publishes: "none", "T", "F" (register=)   *)
(*   stale      a provider announcement failed since the last success: the  *)
(*              publication may be behind, which is the provider's fault    *)
(***************************************************************************)
EXTENDS Naturals, Sequences, TLC, Json
CONSTANTS MaxOps, EmitMode
VARIABLES auto, announced, pub, stale, hist
vars == <<auto, announced, pub, stale, hist>>
B(b) == IF b THEN "T" ELSE "F"

Init == auto = FALSE /\ announced = FALSE /\ pub = "none" /\ stale = FALSE /\ hist = <<>>

\* AnnounceMdnsEntry with the flag value a; ok: the provider accepts the announcement
DoAnnounce(a, ok) ==
    IF ok THEN announced' = TRUE /\ pub' = B(a) /\ stale' = FALSE
    ELSE UNCHANGED <<announced, pub>> /\ stale' = TRUE
Announce(ok) == DoAnnounce(auto, ok) /\ UNCHANGED auto
Unannounce == /\ UNCHANGED auto
              /\ IF announced THEN announced' = FALSE /\ pub' = "none" /\ stale' = FALSE
                 ELSE UNCHANGED <<announced, pub, stale>>
\* SetAutoAccept: the flag; while announced the announcement is renewed
SetAuto(b, ok) == /\ auto' = b
                  /\ IF announced THEN DoAnnounce(b, ok) ELSE UNCHANGED <<announced, pub, stale>>

Log(op) == hist' = Append(hist, op)
Next == /\ Len(hist) < MaxOps
        /\ \/ \E ok \in BOOLEAN : (Announce(ok) /\ Log([op |-> "Announce", ok |-> ok, b |-> FALSE]))
           \/ (Unannounce /\ Log([op |-> "Unannounce", ok |-> TRUE, b |-> FALSE]))
           \/ \E b \in BOOLEAN, ok \in BOOLEAN : (SetAuto(b, ok) /\ Log([op |-> "SetAuto", ok |-> ok, b |-> b]))
Spec == Init /\ [][Next]_vars

\* the requirement: what is published carries the current flag (unless the provider refused the latest announcement)
P_C16_current == (pub # "none" /\ ~stale) => pub = B(auto)
\* and the manager's belief matches the provider
P_belief == announced <=> pub # "none"
Emit == EmitMode = "none" \/ PrintT(<<"TEST", ToJson(hist')>>)
====
