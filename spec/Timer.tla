---- MODULE Timer ----
(***************************************************************************)
(* ship/handshake.go setHandshakeTimer / stopHandshakeTimer as implemented.*)
(* Design "shared": one unbuffered stop channel shared by all timer         *)
(* goroutines and a NON-BLOCKING send in stopHandshakeTimer - the send only *)
(* succeeds if some goroutine already waits in its select, and then an     *)
(* arbitrary waiting goroutine receives it.  Design "perTimer": every       *)
(* timer has its own stop channel, which is closed on stop (the repair).   *)
(* C14 is the refinement  Timer => AbsTimer.                               *)
(***************************************************************************)
EXTENDS Naturals, Sequences, FiniteSets
CONSTANTS MaxArms, Design    \* "shared" | "perTimer"
VARIABLES n, running, gor, closedCh, fires
vars == <<n, running, gor, closedCh, fires>>
Ids == 1..MaxArms
Fixed == Design = "perTimer"
Init == n = 0 /\ running = FALSE /\ gor = [i \in Ids |-> "none"] /\ closedCh = {} /\ fires = <<>>

Selecting == {g \in Ids : gor[g] = "selecting"}

\* stopHandshakeTimer(): if !running return; non-blocking send on the shared channel; running := false
\* g2 = receiver of the stop signal (0 = nobody is selecting, the signal is lost)
ValidRecv(g2) == IF running /\ ~Fixed /\ Selecting # {} THEN g2 \in Selecting ELSE g2 = 0
GorAfterStop(g2) == IF g2 # 0 THEN [gor EXCEPT ![g2] = "exited"] ELSE gor
ClosedAfterStop == IF running /\ Fixed THEN closedCh \cup {n} ELSE closedCh

Stop == /\ running
        /\ \E g2 \in Ids \cup {0} : ValidRecv(g2) /\ gor' = GorAfterStop(g2)
        /\ closedCh' = ClosedAfterStop
        /\ running' = FALSE /\ UNCHANGED <<n, fires>>

\* setHandshakeTimer(): stop; running := true; go func(){ select ... }
Arm == /\ n < MaxArms
       /\ \E g2 \in Ids \cup {0} : ValidRecv(g2) /\ gor' = [GorAfterStop(g2) EXCEPT ![n + 1] = "spawned"]
       /\ closedCh' = ClosedAfterStop
       /\ n' = n + 1 /\ running' = TRUE /\ UNCHANGED fires

\* the goroutine reaches its select
Enter(g) == gor[g] = "spawned" /\ gor' = [gor EXCEPT ![g] = "selecting"] /\ UNCHANGED <<n, running, closedCh, fires>>
\* perTimer: a closed stop channel is ready (long before time.After: stops happen well before expiry)
ExitClosed(g) == Fixed /\ gor[g] = "selecting" /\ g \in closedCh /\ gor' = [gor EXCEPT ![g] = "exited"] /\ UNCHANGED <<n, running, closedCh, fires>>
\* time.After fires: running := false; handleState(true, nil)
Fire(g) == /\ gor[g] = "selecting" /\ (Fixed => g \notin closedCh)
           /\ gor' = [gor EXCEPT ![g] = "fired"] /\ running' = FALSE /\ fires' = Append(fires, g)
           /\ UNCHANGED <<n, closedCh>>

Next == Stop \/ Arm \/ \E g \in Ids : Enter(g) \/ ExitClosed(g) \/ Fire(g)
Spec == Init /\ [][Next]_vars

Abs == INSTANCE AbsTimer WITH TimerIds <- Ids, armed <- (IF running THEN n ELSE 0), fires <- fires
Refines == Abs!Spec
\* the same as invariants: a timeout is only ever delivered by the latest, unstopped timer, at most once per timer
NoStaleFire == \A i \in 1..Len(fires) : \A j \in 1..Len(fires) : (i # j => fires[i] # fires[j])
====
