---- MODULE ShipSme ----
(***************************************************************************)
(* SHIP message-exchange (SME) handshake of ship-go as implemented:        *)
(* one TLA+ operator per Go handler of ship/handshake.go, ship/hs_*.go and *)
(* ship/connection.go (DESIGN.md Appendix A).  The state of an endpoint is *)
(* one record; handlers are pure Record -> Record operators; the Go call   *)
(* structure (setAndHandleState re-dispatch, the two halves of             *)
(* ApprovePendingHandshake, fall-through re-dispatches) is a continuation  *)
(* stack `todo` that Settle runs to completion, so ONE TLC transition is    *)
(* ONE entry into the real object (Run, HandleIncomingWebsocketMessage,    *)
(* timer expiry, ApprovePendingHandshake, AbortPendingHandshake,           *)
(* ReportConnectionError, CloseConnection, WriteShipMessageWithPayload)    *)
(* or one passage of real time (Sleep: the delayed-close goroutines run).  *)
(*                                                                         *)
(* Endpoints = {"x"}: one endpoint against an adversary (C01 C04 C06 C08   *)
(* C09 C11).  Endpoints = {"c","s"}: two endpoints joined by FIFO queues   *)
(* (C03 C06).  The events an action produces are judged by SmeProps, the   *)
(* same operators the monitor pass applies to the real code's events.      *)
(***************************************************************************)
EXTENDS Naturals, Sequences, FiniteSets, TLC, Json, SmeProps

CONSTANTS
    Endpoints,      \* {"x"} or {"c","s"}
    Pair,           \* BOOLEAN
    RoleOf,         \* [Endpoints -> {"client","server"}]
    Paired0, Auto0, AllowWait0,   \* [Endpoints -> BOOLEAN] answers of the info provider at start
    Stored0,        \* [Endpoints -> {"none","A","B"}] SHIP id the application stored for the remote SKI
    MyId,           \* [Endpoints -> {"A","B"}] local SHIP id
    Defects,        \* as-is behaviours of the unchanged tree that are modelled (subset of DefectNames)
    MaxFail,        \* write failures the environment may inject
    MaxData,        \* data frames per sender
    AdvMsgs,        \* messages the adversary may inject (single mode)
    TimelyMode,     \* pair: timers expire only when nothing else can happen, in order of their durations
    EnvClose,       \* the local application may call CloseConnection
    GenMode,        \* "full": unrestricted adversary; "budget": at most HostileBudget non-cooperative actions;
                    \* "sim": cooperative until simulation depth HostileFrom
    HostileBudget, HostileFrom,
    EarlyData,      \* TRUE: a peer that sends SPINE data frames before this side's handshake is over counts as cooperative (C06: the
                    \*       held-back frames; ship-go itself never does that, other implementations may)
    MaxSleeps,      \* passages of real time per behaviour (keeps a replayed behaviour far below the 10 s timers)
    ParMode,        \* TRUE: a behaviour may end with two entry points of a connection called at the same time (ParStep)
    EmitMode,       \* "none" | "edge" (every edge, BFS) | "final" (whole behaviour at depth SimDepth, -simulate)
    SimDepth

DefectNames == {"proposalNoReturn",   \* hs_prot.go: ServerListenProposal continues after a failed send
                "emptyFormatPanic",   \* hs_prot.go: index panic on a present-but-empty format list
                "approveNoCheck",     \* connection.go: ApprovePendingHandshake goes to hello-ok even if the ready send failed
                "closeBypassOnce",    \* handshake.go: announce/confirm report the end without the once
                "onceReentrance",     \* connection.go: safe close with an already closed writer re-enters sync.Once
                "noClosedGuard"}      \* a closed connection still processes handshake input
ASSUME Defects \subseteq DefectNames
Has(d) == d \in Defects

VARIABLES E, net, failBudget, userDone, approvedPending, approvedAny, cancelled, userClosed, faults, hb, sleeps, acc, viol, lastAct, hist,
          parDone      \* a ParStep was taken: the behaviour ends there

vars == <<E, net, failBudget, userDone, approvedPending, approvedAny, cancelled, userClosed, faults, hb, sleeps, acc, viol, lastAct, hist, parDone>>

Peer(e) == CHOOSE p \in Endpoints : p # e

NoMsg == [t |-> "nil"]

(*************************** messages ******************************************)
MInit         == [t |-> "init", v |-> "ok"]
MHello(ph, w, p) == [t |-> "hello", ph |-> ph, w |-> w, p |-> p]
MProt(k)      == [t |-> "prot", k |-> k]
MProtErr      == [t |-> "proterr"]
MPin(v)       == [t |-> "pin", v |-> v]
MAccReq       == [t |-> "accreq"]
MAcc(id)      == [t |-> "acc", id |-> id]
MClose(ph)    == [t |-> "close", ph |-> ph]
MData(n)      == [t |-> "data", n |-> n]

MStr(m) == CASE m.t = "init"  -> "init." \o m.v
             [] m.t = "hello" -> "hello." \o m.ph \o "." \o m.w \o "." \o m.p
             [] m.t = "prot"  -> "prot." \o m.k
             [] m.t = "pin"   -> "pin." \o m.v
             [] m.t = "acc"   -> "acc." \o m.id
             [] m.t = "close" -> "close." \o m.ph
             [] OTHER         -> m.t
MId(m) == CASE m.t = "acc" -> m.id [] m.t = "data" -> m.n [] OTHER -> ""
SentKind(m) == CASE m.t = "close" -> "sentclose" [] m.t = "data" -> "sentdata" [] OTHER -> "sent"

EndStates == {"Complete", "AbortDone", "RemoteAbortDone", "Rejected"}
B(b) == IF b THEN "T" ELSE "F"

InitRec(e) ==
    [ role |-> RoleOf[e], st |-> "InitStart", ran |-> FALSE,
      tRun |-> FALSE, tType |-> "WFR", tLeft |-> 0, fires |-> 0, lastWaiting |-> FALSE,
      tSame |-> FALSE,      \* only inside a ParStep: the timer that was armed when the step began is still the armed one
      reader |-> FALSE, buf |-> <<>>,
      stored |-> Stored0[e], myId |-> MyId[e],
      wsOpen |-> TRUE, errPending |-> FALSE, late |-> 0, once |-> FALSE, cl |-> FALSE, reported |-> FALSE,
      pending |-> <<>>, annBusy |-> FALSE,
      failAt |-> 0, paired |-> Paired0[e], auto |-> Auto0[e], allowWait |-> AllowWait0[e],
      panicked |-> FALSE, deadlocked |-> FALSE, helloSeen |-> FALSE, lateHello |-> FALSE,
      nInj |-> 0, dataSent |-> 0, idOk |-> FALSE,
      ev |-> <<>>, outbox |-> <<>>, todo |-> <<>> ]

(*************************** primitive effects **********************************)
Ev(r, k, v) == [r EXCEPT !.ev = Append(@, [k |-> k, v |-> v])]
StopT(r)    == [r EXCEPT !.tRun = FALSE, !.tSame = FALSE]
Arm(r, ty, d) == [r EXCEPT !.tRun = TRUE, !.tType = ty, !.tLeft = d, !.tSame = FALSE]

\* timer side effects of setState
TimerAfter(r, S) ==
    CASE S \in {"ReadyInit", "PendingInit"}        -> Arm(r, "WFR", 6)
      [] S \in {"HelloOk", "Abort", "AbortDone", "RemoteAbortDone", "Rejected", "ClientOk"} -> StopT(r)
      [] S = "ClientListenChoice"                 -> Arm(r, "WFR", 1)
      [] OTHER                                    -> r

\* setState: HandleShipHandshakeStateUpdate only if the state changed
Rep(r, S) == LET r1 == TimerAfter(r, S)
             IN  IF r.st = S THEN r1 ELSE Ev([r1 EXCEPT !.st = S], "rep", S)
\* unconditional report
Report(r, S) == Ev(r, "rep", S)

\* HandleConnectionClosed; with the repair every path goes through one once-guarded helper
CloseReport(r, end) ==
    IF ~Has("closeBypassOnce") /\ r.reported THEN r
    ELSE Ev([r EXCEPT !.reported = TRUE], "closed", B(end))
\* the announce / confirm handlers stop the handshake timer since the repair
StopC(r) == IF Has("closeBypassOnce") THEN r ELSE StopT(r)
CloseData(r, code) == Ev([r EXCEPT !.wsOpen = FALSE, !.cl = TRUE], "close", code)

RECURSIVE CloseConn(_, _, _)
RECURSIVE SendR(_, _)

\* shipMessage (closed check) + transport write; result [ok, r]
SendR(r, m) ==
    IF ~r.wsOpen THEN [ok |-> FALSE, r |-> CloseConn(r, FALSE, "4001")]
    ELSE IF r.failAt = 1 THEN [ok |-> FALSE, r |-> [r EXCEPT !.failAt = 0]]
    ELSE [ok |-> TRUE,
          r  |-> Ev([r EXCEPT !.failAt = IF @ > 1 THEN @ - 1 ELSE 0, !.outbox = Append(@, m)],
                    SentKind(m), MStr(m))]

\* raw transport write of the init message: no closed check in the ship layer
WriteRaw(r, m) ==
    IF ~r.wsOpen THEN [ok |-> FALSE, r |-> r]
    ELSE IF r.failAt = 1 THEN [ok |-> FALSE, r |-> [r EXCEPT !.failAt = 0]]
    ELSE [ok |-> TRUE,
          r  |-> Ev([r EXCEPT !.failAt = IF @ > 1 THEN @ - 1 ELSE 0, !.outbox = Append(@, m)],
                    SentKind(m), MStr(m))]

AddTask(r, t) == IF \E i \in 1..Len(r.pending) : r.pending[i] = t THEN r
                 ELSE [r EXCEPT !.pending = Append(@, t)]

\* CloseConnection(safe, code, reason) under shutdownOnce
CloseConn(r, safe, code) ==
    IF r.once
    THEN r
    ELSE LET r1  == [StopT(r) EXCEPT !.once = TRUE, !.cl = TRUE]
             end == r.st \in EndStates
         IN  IF safe /\ r.st = "Complete" /\ (r1.wsOpen \/ Has("onceReentrance"))
             THEN IF ~r1.wsOpen
                  THEN [r1 EXCEPT !.deadlocked = TRUE]      \* shipMessage -> CloseConnection -> Do inside Do
                  ELSE LET s == SendR(r1, MClose("announce"))
                       IN  AddTask(s.r, [k |-> "T500", end |-> end])
             ELSE CloseReport(CloseData(r1, code), end)

Push(r, items) == [r EXCEPT !.todo = items \o @]
NextH(r)       == Push(r, <<[k |-> "H"]>>)

\* endHandshakeWithError
EWE(r) == Report(CloseConn(Rep(StopT(r), "Error"), TRUE, "4001"), "Error")
\* abortProtocolHandshake
APH(r) == LET s == SendR(StopT(r), MProtErr) IN CloseConn(Rep(s.r, "Error"), FALSE, "4001")

(*************************** handlers *******************************************)
H_InitStart(r) ==
    IF r.role = "client"
    THEN LET r1 == Rep(r, "ClientSend")
             s  == WriteRaw(r1, MInit)
         IN  IF ~s.ok THEN EWE(s.r)
             ELSE Arm(Rep(s.r, "ClientWait"), "WFR", 1)
    ELSE Arm(Rep(r, "ServerWait"), "WFR", 1)

InitVerdict(m) == IF m.t = "nil" THEN "ok"
                  ELSE IF m.t = "init" THEN m.v
                  ELSE "badtype"

H_ClientWait(r, to, m) ==
    IF to THEN EWE(r)
    ELSE LET r1 == Rep(r, "ClientEvaluate")
         IN  IF InitVerdict(m) # "ok" THEN EWE(r1) ELSE NextH(Rep(r1, "Hello"))

H_ServerWait(r, to, m) ==
    IF to THEN EWE(r)
    ELSE LET r1 == Rep(r, "ServerEvaluate")
         IN  IF InitVerdict(m) # "ok" THEN EWE(r1)
             ELSE LET s == WriteRaw(r1, MInit)
                  IN  IF ~s.ok THEN EWE(s.r) ELSE NextH(Rep(s.r, "Hello"))

H_Hello(r) ==
    IF r.paired \/ r.auto \/ r.role = "client"
    THEN NextH(Rep(r, "ReadyInit"))
    ELSE NextH(Rep(r, "PendingInit"))

H_ReadyInit(r) ==
    LET s == SendR(r, MHello("ready", "ge30", "absent"))
    IN  IF ~s.ok THEN NextH(Rep(s.r, "Abort")) ELSE Rep(s.r, "ReadyListen")

HelloClass(m) == IF m.t = "hello" THEN m.ph
                 ELSE IF m.t \in {"garbage", "nil", "init"} THEN "unparsable"
                 ELSE "bad"

H_ReadyListen(r, to, m) ==
    IF to THEN NextH(Rep(r, "Abort"))
    ELSE CASE HelloClass(m) = "ready"   -> NextH(Rep(r, "HelloOk"))
           [] HelloClass(m) = "pending" ->
                 IF m.p # "true" THEN r
                 ELSE LET r1 == IF r.allowWait THEN Arm(r, "WFR", 6) ELSE r
                          s  == SendR(r1, MHello("ready", "ge30", "absent"))
                      IN  IF ~s.ok THEN EWE(s.r) ELSE s.r
           [] HelloClass(m) = "aborted" -> NextH(Rep(r, "RemoteAbortDone"))
           [] OTHER                     -> NextH(Rep(r, "Abort"))

H_Abort(r) ==
    LET s == SendR(StopT(r), MHello("aborted", "absent", "absent"))
    IN  IF ~s.ok THEN EWE(s.r) ELSE NextH(Rep(s.r, "AbortDone"))

H_AbortDone(r) == AddTask(r, [k |-> "T1s"])

H_PendingInit(r) ==
    LET s == SendR(r, MHello("pending", "ge30", "absent"))
    IN  IF ~s.ok THEN EWE(s.r)
        ELSE LET r1 == Rep(s.r, "PendingListen")
             IN  IF ~r1.allowWait THEN NextH(Rep(r1, "Abort")) ELSE r1

ProlongReq(r, ty) ==
    LET s == SendR(r, MHello("pending", "absent", "true"))
    IN  IF ~s.ok THEN EWE(s.r) ELSE Arm(s.r, ty, 6)

H_PendingListen(r0, to, m) ==
    LET r == IF ~to /\ HelloClass(m) = "ready" THEN [r0 EXCEPT !.helloSeen = TRUE] ELSE r0 IN
    IF to
    THEN IF ~r.allowWait
         THEN (IF r.tType # "SPR" THEN NextH(Rep(r, "Abort"))
               ELSE LET p == ProlongReq(r, "PRR")      \* hs_hello.go: an unset last waiting value becomes 66 s here
                    IN  IF p.st = r.st /\ p.tRun THEN [p EXCEPT !.lastWaiting = TRUE] ELSE p)
         ELSE ProlongReq(r, "PRR")
    ELSE CASE HelloClass(m) = "ready" ->
                 IF m.w = "absent" THEN NextH(Rep(r, "Abort"))
                 ELSE IF m.w = "ge30" THEN Arm(StopT(r), "SPR", 3)
                 ELSE IF m.w = "mid"  THEN NextH(StopT(r))                                   \* falls through to handleState(false,nil)
                 ELSE Push(Rep(StopT(r), "Abort"), <<[k |-> "H"], [k |-> "H"]>>)              \* abort, then the fall-through dispatch
           [] HelloClass(m) = "pending" ->
                 IF m.w # "absent" /\ m.p = "absent"
                 THEN LET r1 == [StopT(r) EXCEPT !.lastWaiting = TRUE]
                      IN  IF m.w = "ge30" THEN Arm(r1, "SPR", 3)
                          ELSE IF m.w = "mid" THEN r1
                          ELSE NextH(Rep(r1, "Abort"))
                 ELSE IF m.w = "absent" /\ m.p = "true"
                 THEN LET s == SendR(r, MHello("pending", "ge30", "absent"))
                      IN  IF ~s.ok THEN EWE(s.r) ELSE s.r
                 ELSE Push(Rep(r, "Abort"), <<[k |-> "H"], [k |-> "H"]>>)
           [] HelloClass(m) = "aborted" -> NextH(Rep(r, "RemoteAbortDone"))
           [] OTHER -> NextH(Rep(r, "Abort"))

H_HelloOk(r) ==
    IF r.role = "server"
    THEN Rep(Arm(Rep(r, "ServerInit"), "WFR", 1), "ServerListenProposal")
    ELSE LET r1 == Rep(r, "ClientInit")
             s  == SendR(r1, MProt("announceMax"))
         IN  IF ~s.ok THEN EWE(s.r) ELSE Rep(s.r, "ClientListenChoice")

ProtClass(m) == IF m.t = "prot" THEN m.k
                ELSE IF m.t \in {"garbage", "nil", "init"} THEN "unparsable"
                ELSE "other"

H_ServerListenProposal(r0, m) ==
    LET r == IF m.t = "hello" THEN [r0 EXCEPT !.lateHello = TRUE] ELSE r0 IN
    IF ProtClass(m) # "announceMax" THEN EWE(r)
    ELSE LET s == SendR(StopT(r), MProt("select"))
         IN  IF ~s.ok
             THEN (IF ~Has("proposalNoReturn") THEN EWE(s.r)
                   ELSE Rep(Arm(EWE(s.r), "WFR", 1), "ServerListenConfirm"))      \* hs_prot.go:58-64 continues
             ELSE Rep(Arm(s.r, "WFR", 1), "ServerListenConfirm")

H_ServerListenConfirm(r, m) ==
    IF ProtClass(m) \in {"select", "selectBad", "selectEmptyFormat"}   \* the server only checks the handshake type
    THEN NextH(Rep(StopT(r), "ServerOk"))
    ELSE APH(r)

H_ClientListenChoice(r, m) ==
    LET r1 == StopT(r)
    IN  IF ProtClass(m) = "selectEmptyFormat" /\ Has("emptyFormatPanic") THEN [r1 EXCEPT !.panicked = TRUE]
        ELSE IF ProtClass(m) # "select" THEN APH(r1)
        ELSE LET s == SendR(r1, MProt("select"))
             IN  IF ~s.ok THEN EWE(s.r) ELSE NextH(Rep(s.r, "ClientOk"))

H_PinInit(r) ==
    LET r1 == Rep(r, "PinCheckInit")
        s  == SendR(r1, MPin("none"))
    IN  IF ~s.ok THEN EWE(s.r) ELSE Rep(s.r, "PinCheckListen")

H_PinListen(r, m) ==
    IF m.t = "pin" /\ m.v = "none"
    THEN LET r1 == Rep(r, "PinCheckOk")
             s  == SendR(r1, MAccReq)
         IN  IF ~s.ok THEN EWE(s.r) ELSE Rep(Arm(s.r, "WFR", 1), "AccessMethodsRequest")
    ELSE EWE(r)

RECURSIVE DeliverAll(_, _)
DeliverAll(r, q) == IF q = <<>> THEN r ELSE DeliverAll(Ev(r, "deliver", Head(q)), Tail(q))
FlushBuf(r) == [DeliverAll(r, r.buf) EXCEPT !.buf = <<>>]

H_Access(r, m) ==
    IF m.t = "accreq"
    THEN LET s == SendR(r, MAcc(r.myId)) IN IF ~s.ok THEN EWE(s.r) ELSE s.r
    ELSE IF m.t = "acc"
    THEN IF m.id \in {"missing", "illtyped"} THEN EWE(r)
         ELSE IF r.stored # "none" /\ r.stored # m.id THEN EWE(r)
         ELSE LET r1 == IF r.stored = "none"
                        THEN Ev([r EXCEPT !.stored = IF m.id = "empty" THEN "none" ELSE m.id], "id", m.id) ELSE r
                  r2 == Rep(r1, "Approved")
                  r3 == Ev([r2 EXCEPT !.reader = TRUE, !.idOk = TRUE], "setup", "1")
              IN  FlushBuf(Rep(StopT(r3), "Complete"))
    ELSE EWE(r)

\* handleState(timeout, message)
Dispatch(r, to, m) ==
    CASE r.st = "Error"                 -> r
      [] r.st = "InitStart"             -> H_InitStart(r)
      [] r.st = "ClientWait"            -> H_ClientWait(r, to, m)
      [] r.st = "ServerWait"            -> H_ServerWait(r, to, m)
      [] r.st = "Hello"                 -> H_Hello(r)
      [] r.st = "ReadyInit"             -> H_ReadyInit(r)
      [] r.st = "ReadyListen"           -> H_ReadyListen(r, to, m)
      [] r.st = "PendingInit"           -> H_PendingInit(r)
      [] r.st = "PendingListen"         -> H_PendingListen(r, to, m)
      [] r.st = "HelloOk"               -> H_HelloOk(r)
      [] r.st = "Abort"                 -> H_Abort(r)
      [] r.st \in {"AbortDone", "RemoteAbortDone"} -> H_AbortDone(r)
      [] r.st = "ServerListenProposal"  -> H_ServerListenProposal(r, m)
      [] r.st = "ServerListenConfirm"   -> H_ServerListenConfirm(r, m)
      [] r.st = "ClientListenChoice"    -> H_ClientListenChoice(r, m)
      [] r.st \in {"ClientOk", "ServerOk"} -> NextH(Rep(r, "PinCheckInit"))
      [] r.st = "PinCheckInit"          -> H_PinInit(r)
      [] r.st = "PinCheckListen"        -> H_PinListen(r, m)
      [] r.st = "AccessMethodsRequest"  -> H_Access(r, m)
      [] OTHER                          -> r

\* since the repair a connection on which CloseConnection ran ignores handshake input at its entry points
Guarded(r) == r.cl /\ ~Has("noClosedGuard")

\* HandleIncomingWebsocketMessage
Incoming(r, m) ==
    IF m.t = "data" THEN (IF r.reader THEN Ev(r, "deliver", m.n)
                                       ELSE [r EXCEPT !.buf = Append(@, m.n)])
    ELSE IF m.t = "databad" THEN r
    ELSE IF m.t = "close"
    THEN IF m.ph = "announce"
         THEN LET s == SendR(r, MClose("confirm"))                       \* failure ignored
              IN  AddTask([s.r EXCEPT !.annBusy = TRUE], [k |-> "TAnn"])  \* the handler now blocks 500 ms
         ELSE IF m.ph = "confirm"
         THEN CloseReport(CloseData(StopC(r), "4001"), r.st = "Complete")
         ELSE r
    ELSE IF Guarded(r) THEN r
    ELSE Dispatch(r, FALSE, m)

Exec(r) ==
    LET top == Head(r.todo)
        r0  == [r EXCEPT !.todo = Tail(@)]
    IN  CASE top.k = "H"        -> Dispatch(r0, FALSE, NoMsg)
          [] top.k = "Hm"       -> Incoming(r0, top.m)
          [] top.k = "Hrun"     -> IF Guarded(r0) THEN r0 ELSE Dispatch(r0, FALSE, NoMsg)
          [] top.k = "Ht"       -> IF Guarded(r0) THEN r0 ELSE Dispatch(r0, TRUE, NoMsg)
          [] top.k = "Approve2" -> IF Has("approveNoCheck") \/ r0.st = "ReadyListen"
                                   THEN NextH(Rep(r0, "HelloOk")) ELSE r0

RECURSIVE Settle(_)
Settle(r) == IF r.todo = <<>> THEN r
             ELSE IF r.panicked \/ r.deadlocked THEN [r EXCEPT !.todo = <<>>]
             ELSE Settle(Exec(r))

\* ReportConnectionError
ConnErr(r) ==
    CASE r.st = "ReadyListen"      -> CloseConn(Rep(r, "Rejected"), FALSE, "4001")
      [] r.st = "RemoteAbortDone"  -> CloseConn(r, FALSE, "4001")
      [] r.st \in {"Abort", "AbortDone"} -> CloseConn(r, FALSE, "4452")
      [] OTHER                     -> Report(CloseConn(Rep(r, "Error"), FALSE, "4001"), "Error")

\* delayed goroutines
RunTask(r, t) ==
    CASE t.k = "T1s"  -> CloseConn(r, FALSE, "4452")
      [] t.k = "T500" -> CloseReport(CloseData(r, "4001"), t.end)
      [] t.k = "TAnn" -> CloseReport(CloseData(StopC([r EXCEPT !.annBusy = FALSE]), "4001"), r.st = "Complete")
RECURSIVE RunTasks(_, _)
RunTasks(r, ts) == IF ts = <<>> THEN r ELSE RunTasks(RunTask(r, Head(ts)), Tail(ts))
SleepRec(r) ==
    LET half == SelectSeq(r.pending, LAMBDA t : t.k # "T1s")
        full == SelectSeq(r.pending, LAMBDA t : t.k = "T1s")
    IN  RunTasks([r EXCEPT !.pending = <<>>], half \o full)

(*************************** cooperative / hostile environment ******************)
Alive(r) == ~r.panicked /\ ~r.deadlocked

Coop(r) ==
    (IF r.st \in {"ClientWait", "ServerWait"} THEN {[t |-> "init", v |-> "ok"]} ELSE {})
    \cup (IF r.st \in {"ReadyListen", "PendingListen"}
          THEN {MHello("ready", "ge30", "absent"), MHello("pending", "ge30", "absent"), MHello("pending", "absent", "true")} ELSE {})
    \cup (IF r.st = "ServerListenProposal" THEN {MProt("announceMax")} ELSE {})
    \cup (IF r.st \in {"ServerListenConfirm", "ClientListenChoice"} THEN {MProt("select")} ELSE {})
    \cup (IF r.st = "PinCheckListen" THEN {MPin("none")} ELSE {})
    \cup (IF r.st = "AccessMethodsRequest" THEN {MAccReq, MAcc("A"), MAcc("B")} ELSE {})
    \cup (IF r.st = "Complete" \/ (EarlyData /\ r.ran /\ r.wsOpen) THEN {[t |-> "data"]} ELSE {})

HostileOK == CASE GenMode = "full"   -> TRUE
               [] GenMode = "budget" -> hb > 0
               [] GenMode = "sim"    -> TLCGet("level") >= HostileFrom
Spend(h)  == hb' = IF h /\ GenMode = "budget" THEN hb - 1 ELSE hb

(*************************** actions *********************************************)
Clr == [x \in Endpoints |-> [E[x] EXCEPT !.ev = <<>>]]

\* install the new record of e, move the frames it produced to the peer's queue
Apply(e, r, act) ==
    /\ E' = [Clr EXCEPT ![e] = [r EXCEPT !.outbox = <<>>]]
    /\ net' = IF Pair THEN [net EXCEPT ![Peer(e)] = @ \o r.outbox] ELSE net
    /\ lastAct' = act

Act(a, e, m, id) == [a |-> a, e |-> e, m |-> m, id |-> id]

Run(e) == /\ Alive(E[e]) /\ ~E[e].ran
          /\ Apply(e, Settle(Push([Clr[e] EXCEPT !.ran = TRUE], <<[k |-> "Hrun"]>>)), Act("Run", e, "", ""))
          /\ Spend(FALSE)
          /\ UNCHANGED <<failBudget, userDone, approvedPending, approvedAny, cancelled, userClosed, faults>>

\* single mode: the adversary delivers a message
Inject(e, m0) ==
    /\ ~Pair /\ Alive(E[e]) /\ ~E[e].annBusy
    /\ E[e].wsOpen \/ E[e].late = 0
    /\ m0.t = "data" => E[e].nInj < MaxData
    /\ LET r   == Clr[e]
           m   == IF m0.t = "data" THEN MData("d" \o ToString(r.nInj + 1)) ELSE m0
           coop == IF m0.t = "data" THEN [t |-> "data"] \in Coop(r) ELSE m0 \in Coop(r)
           r1  == [r EXCEPT !.nInj = IF m0.t = "data" THEN @ + 1 ELSE @,
                            !.late = IF r.wsOpen THEN @ ELSE 1]
       IN  /\ coop \/ HostileOK
           /\ Apply(e, Settle(Push(r1, <<[k |-> "Hm", m |-> m]>>)), Act("Inject", e, MStr(m), MId(m)))
           /\ Spend(~coop)
    /\ UNCHANGED <<failBudget, userDone, approvedPending, approvedAny, cancelled, userClosed, faults>>

\* pair mode: deliver the head of e's queue; "eos" = the peer closed its transport -> ReportConnectionError
Deliver(e) ==
    /\ Pair /\ Alive(E[e]) /\ ~E[e].annBusy /\ net[e] # <<>>
    /\ LET m  == Head(net[e])
           r  == Clr[e]
           r2 == IF m.t = "eos"
                 THEN (IF r.wsOpen THEN ConnErr([r EXCEPT !.wsOpen = FALSE]) ELSE r)
                 ELSE (IF r.wsOpen THEN Settle(Push(r, <<[k |-> "Hm", m |-> m]>>)) ELSE r)
       IN  /\ E' = [Clr EXCEPT ![e] = [r2 EXCEPT !.outbox = <<>>]]
           /\ net' = [net EXCEPT ![e] = Tail(@), ![Peer(e)] = @ \o r2.outbox]
           /\ lastAct' = Act("Deliver", e, IF m.t = "eos" THEN "eos" ELSE MStr(m), IF m.t = "eos" THEN "" ELSE MId(m))
    /\ Spend(FALSE)
    /\ UNCHANGED <<failBudget, userDone, approvedPending, approvedAny, cancelled, userClosed, faults>>

\* pair mode: a side that closed its transport puts an end-of-stream marker behind its frames
EosSent(e) == \E i \in 1..Len(net[Peer(e)]) : net[Peer(e)][i].t = "eos"
PropagateClose(e) ==
    /\ Pair /\ ~E[e].wsOpen /\ ~EosSent(e) /\ E[Peer(e)].wsOpen
    /\ net' = [net EXCEPT ![Peer(e)] = Append(@, [t |-> "eos"])]
    /\ E' = Clr /\ lastAct' = Act("PropagateClose", e, "", "")
    /\ Spend(FALSE)
    /\ UNCHANGED <<failBudget, userDone, approvedPending, approvedAny, cancelled, userClosed, faults>>

AnyPending == \E x \in Endpoints : E[x].pending # <<>>
OtherEnabled == \/ \E x \in Endpoints : ~E[x].ran /\ Alive(E[x])
                \/ \E x \in Endpoints : net[x] # <<>> /\ E[x].wsOpen /\ Alive(E[x]) /\ ~E[x].annBusy
                \/ AnyPending
                \/ \E x \in Endpoints : ~E[x].wsOpen /\ ~EosSent(x) /\ E[Peer(x)].wsOpen

Timed == Pair /\ TimelyMode
Tick == /\ Timed /\ ~OtherEnabled
        /\ \E x \in Endpoints : E[x].tRun
        /\ \A x \in Endpoints : E[x].tRun => E[x].tLeft > 0
        /\ E' = [x \in Endpoints |-> IF E[x].tRun THEN [Clr[x] EXCEPT !.tLeft = @ - 1] ELSE Clr[x]]
        /\ lastAct' = Act("Tick", "", "", "")
        /\ Spend(FALSE)
        /\ UNCHANGED <<net, failBudget, userDone, approvedPending, approvedAny, cancelled, userClosed, faults>>

\* Excluded corner (documented in DESIGN.md): with waiting no longer allowed, an expiring send-prolongation-request
\* timer and no waiting value received so far, hs_hello.go arms the reply timer with time.Duration(66000) = 66
\* MICROseconds (a units slip for 66 s); the real timer then fires at once on its own goroutine, which a
\* sequential replay cannot observe deterministically.
UnitsSlipCorner(r) == r.st = "PendingListen" /\ ~r.allowWait /\ r.tType = "SPR" /\ ~r.lastWaiting

FireTimeout(e) ==
    /\ Alive(E[e]) /\ E[e].tRun /\ ~UnitsSlipCorner(E[e])
    /\ ~Timed => (E[e].fires < 3 /\ \A x \in Endpoints : Len(net[x]) <= 3)
    /\ Timed => (~OtherEnabled /\ E[e].tLeft = 0)
    /\ LET coop == Timed \/ E[e].st = "PendingListen"
       IN  /\ coop \/ HostileOK
           /\ Spend(~coop)
    /\ Apply(e, Settle(Push([Clr[e] EXCEPT !.tRun = FALSE, !.fires = IF @ < 3 THEN @ + 1 ELSE @], <<[k |-> "Ht"]>>)), Act("FireTimeout", e, "", ""))
    /\ UNCHANGED <<failBudget, userDone, approvedPending, approvedAny, cancelled, userClosed, faults>>

\* the user trusts the remote: RegisterRemoteSKI -> trusted := true; ApprovePendingHandshake
Approve(e) ==
    /\ Alive(E[e]) /\ ~userDone /\ E[e].role = "server" /\ E[e].ran
    /\ LET r == [Clr[e] EXCEPT !.paired = TRUE, !.allowWait = TRUE]
       IN  IF r.st = "PendingListen" /\ ~Guarded(r)
           THEN /\ Apply(e, Settle(Push(Rep(StopT(r), "ReadyInit"), <<[k |-> "H"], [k |-> "Approve2"]>>)), Act("Approve", e, "", ""))
                /\ approvedPending' = TRUE
           ELSE /\ Apply(e, r, Act("Approve", e, "", ""))
                /\ approvedPending' = (approvedPending \/ r.st \in {"InitStart", "ServerWait"})   \* before the hello decision
    /\ approvedAny' = TRUE
    /\ userDone' = TRUE /\ Spend(FALSE) /\ UNCHANGED <<failBudget, cancelled, userClosed, faults>>

\* the user denies: CancelPairingWithSKI -> AbortPendingHandshake; trusted := false
Cancel(e) ==
    /\ HostileOK /\ Alive(E[e]) /\ ~userDone /\ E[e].role = "server" /\ E[e].ran
    /\ Pair => E[e].st \in {"PendingListen", "ReadyListen"}     \* pair: only the cancellation of a pairing in progress
    /\ LET r == [Clr[e] EXCEPT !.paired = FALSE]
       IN  IF r.st \in {"PendingListen", "ReadyListen"} /\ ~Guarded(r)
           THEN Apply(e, Settle(NextH(Rep(StopT(r), "Abort"))), Act("Cancel", e, "", ""))
           ELSE Apply(e, r, Act("Cancel", e, "", ""))
    /\ userDone' = TRUE /\ cancelled' = (E[e].st \in {"PendingListen", "ReadyListen"} /\ ~Guarded(E[e]))
    /\ Spend(TRUE) /\ UNCHANGED <<failBudget, approvedPending, approvedAny, userClosed, faults>>

\* single mode: the websocket marks itself closed (read or write error) ...
WsFail(e) ==
    /\ ~Pair /\ HostileOK /\ Alive(E[e]) /\ E[e].wsOpen /\ E[e].ran
    /\ Apply(e, [Clr[e] EXCEPT !.wsOpen = FALSE, !.errPending = TRUE], Act("WsFail", e, "", ""))
    /\ Spend(TRUE) /\ faults' = TRUE
    /\ UNCHANGED <<failBudget, userDone, approvedPending, approvedAny, cancelled, userClosed>>
\* ... and then reports the error to the SHIP layer
ConnError(e) ==
    /\ ~Pair /\ Alive(E[e]) /\ E[e].errPending
    /\ Apply(e, ConnErr([Clr[e] EXCEPT !.errPending = FALSE]), Act("ConnError", e, "", ""))
    /\ Spend(FALSE)
    /\ UNCHANGED <<failBudget, userDone, approvedPending, approvedAny, cancelled, userClosed, faults>>

LocalClose(e, safe) ==
    /\ EnvClose /\ HostileOK /\ Alive(E[e]) /\ ~E[e].once /\ E[e].ran
    /\ Apply(e, CloseConn(Clr[e], safe, IF safe THEN "4500" ELSE "4001"), Act("Close", e, B(safe), ""))
    /\ Spend(TRUE) /\ userClosed' = TRUE
    /\ UNCHANGED <<failBudget, userDone, approvedPending, approvedAny, cancelled, faults>>

\* real time passes: every delayed goroutine (500 ms ones first) runs
\* (also a check point once a transport is closed: nothing may be left undone then)
Sleep ==
    /\ AnyPending \/ \E x \in Endpoints : ~E[x].wsOpen
    /\ sleeps < MaxSleeps
    /\ \A x \in Endpoints : ~E[x].errPending
    /\ E' = [x \in Endpoints |-> SleepRec(Clr[x])]
    /\ net' = net /\ lastAct' = Act("Sleep", "", "", "")
    /\ Spend(FALSE)
    /\ UNCHANGED <<failBudget, userDone, approvedPending, approvedAny, cancelled, userClosed, faults>>

ArmWriteFailure(e, k) ==
    /\ HostileOK /\ Alive(E[e]) /\ failBudget > 0 /\ E[e].failAt = 0 /\ E[e].wsOpen
    /\ Apply(e, [Clr[e] EXCEPT !.failAt = k], Act("ArmWriteFailure", e, ToString(k), ""))
    /\ failBudget' = failBudget - 1 /\ Spend(TRUE) /\ faults' = TRUE
    /\ UNCHANGED <<userDone, approvedPending, approvedAny, cancelled, userClosed>>

SetAllowWait(e, b) ==
    /\ HostileOK /\ Alive(E[e]) /\ E[e].role = "server" /\ E[e].allowWait # b /\ ~E[e].paired
    /\ E[e].st \in {"InitStart", "ServerWait", "PendingListen"}
    /\ Apply(e, [Clr[e] EXCEPT !.allowWait = b], Act("SetAllowWait", e, B(b), ""))
    /\ Spend(TRUE)
    /\ UNCHANGED <<failBudget, userDone, approvedPending, approvedAny, cancelled, userClosed, faults>>

\* the application writes a SPINE datagram through the writer it got at setup
WriteSpine(e) ==
    /\ Alive(E[e]) /\ E[e].reader /\ E[e].dataSent < MaxData
    /\ E[e].st = "Complete" \/ HostileOK
    /\ LET r == [Clr[e] EXCEPT !.dataSent = @ + 1]
           s == SendR(r, MData(e \o ToString(r.dataSent)))
       IN  Apply(e, s.r, Act("WriteSpine", e, "", e \o ToString(r.dataSent)))
    /\ Spend(E[e].st # "Complete")
    /\ UNCHANGED <<failBudget, userDone, approvedPending, approvedAny, cancelled, userClosed, faults>>

\* -simulate only: keeps a behaviour alive up to SimDepth
Nop == /\ GenMode = "sim"
       /\ E' = Clr /\ net' = net /\ lastAct' = Act("Nop", "", "", "")
       /\ Spend(FALSE)
       /\ UNCHANGED <<failBudget, userDone, approvedPending, approvedAny, cancelled, userClosed, faults>>

\* ------------------------------------------------------------------ two entry points at the same time (ParMode)
\* The read pump (a message), the timer goroutine (an expiry), user goroutines (approve, cancel, close) and the pumps' error
\* report enter the connection without a common lock.  ParStep calls two of them "at the same time": the model computes
\* both sequential orders - what an implementation with atomic entry points could show - the harness starts both calls on
\* the real connection from two goroutines.  The shared formulas judge whatever the real connection did; an outcome that
\* matches neither order is reported as nonconformance.
ParCallsOf(r) ==
    {[k |-> "Inject", m |-> m] : m \in {x \in Coop(r) : x.t # "data" \/ r.nInj < MaxData}}
    \* the peer's connectionClose confirm (the answer to a local announce, or unsolicited): one more cause of the end that can
    \* meet a local close or a transport error
    \cup {[k |-> "Inject", m |-> [t |-> "close", ph |-> "confirm"]]}
    \cup (IF r.tRun /\ ~UnitsSlipCorner(r) THEN {[k |-> "Timeout"]} ELSE {})
    \cup (IF r.role = "server" /\ ~userDone THEN {[k |-> "Approve"], [k |-> "Cancel"]} ELSE {})
    \cup (IF ~r.once THEN {[k |-> "Close", safe |-> TRUE], [k |-> "Close", safe |-> FALSE]} ELSE {})
    \cup (IF r.wsOpen THEN {[k |-> "ConnErr"]} ELSE {})
POrd(c) == CASE c.k = "Inject" -> 1 [] c.k = "Timeout" -> 2 [] c.k = "Approve" -> 3 [] c.k = "Cancel" -> 4 [] c.k = "Close" -> 5 [] OTHER -> 6
ParMsg(r, c) == IF c.m.t = "data" THEN MData("d" \o ToString(r.nInj + 1)) ELSE c.m
\* one call on record r (the same record transformations as the actions above)
Call(r, c, r0) ==
    IF ~Alive(r) THEN r
    ELSE CASE c.k = "Inject" ->
                IF ~r.wsOpen THEN r       \* the websocket delivers nothing once it is closed
                ELSE Settle(Push([r EXCEPT !.nInj = IF c.m.t = "data" THEN @ + 1 ELSE @], <<[k |-> "Hm", m |-> ParMsg(r0, c)]>>))
           [] c.k = "Timeout" ->
                \* the timer's goroutine reports only if it is still the armed timer and was not stopped
                IF r.tRun /\ r.tSame
                THEN Settle(Push([r EXCEPT !.tRun = FALSE, !.tSame = FALSE, !.fires = IF @ < 3 THEN @ + 1 ELSE @], <<[k |-> "Ht"]>>))
                ELSE r
           [] c.k = "Approve" ->
                LET q == [r EXCEPT !.paired = TRUE, !.allowWait = TRUE]
                IN  IF q.st = "PendingListen" /\ ~Guarded(q)
                    THEN Settle(Push(Rep(StopT(q), "ReadyInit"), <<[k |-> "H"], [k |-> "Approve2"]>>)) ELSE q
           [] c.k = "Cancel" ->
                LET q == [r EXCEPT !.paired = FALSE]
                IN  IF q.st \in {"PendingListen", "ReadyListen"} /\ ~Guarded(q) THEN Settle(NextH(Rep(StopT(q), "Abort"))) ELSE q
           [] c.k = "Close" -> IF r.once THEN r ELSE CloseConn(r, c.safe, IF c.safe THEN "4500" ELSE "4001")
           [] OTHER -> IF r.wsOpen THEN ConnErr([r EXCEPT !.wsOpen = FALSE]) ELSE r
CDesc(r, c) == [k |-> c.k,
                m |-> IF c.k = "Inject" THEN MStr(ParMsg(r, c)) ELSE IF c.k = "Close" THEN B(c.safe) ELSE "",
                id |-> IF c.k = "Inject" THEN MId(ParMsg(r, c)) ELSE ""]
ParOutcome(r0, c1, c2) == [Call(Call(r0, c1, r0), c2, r0) EXCEPT !.tSame = FALSE]
ParStep(e) ==
    /\ ParMode /\ ~Pair /\ Alive(E[e]) /\ E[e].ran /\ ~E[e].annBusy /\ E[e].wsOpen /\ ~E[e].errPending /\ E[e].failAt = 0
    /\ \E c1 \in ParCallsOf(Clr[e]), c2 \in ParCallsOf(Clr[e]) :
          /\ POrd(c1) < POrd(c2)
          /\ LET r0 == [Clr[e] EXCEPT !.tSame = TRUE]
             IN  Apply(e, ParOutcome(r0, c1, c2),
                       [a |-> "Par", e |-> e, m |-> "", id |-> "", c1 |-> CDesc(r0, c1), c2 |-> CDesc(r0, c2), raw |-> <<c1, c2>>])
          /\ userDone' = (userDone \/ c1.k \in {"Approve", "Cancel"} \/ c2.k \in {"Approve", "Cancel"})
    /\ Spend(FALSE)
    /\ UNCHANGED <<failBudget, approvedPending, approvedAny, cancelled, userClosed, faults>>
\* the other order of the two calls: the second outcome a sequential implementation could show
ParAlt == LET e  == lastAct'.e
              r0 == [Clr[e] EXCEPT !.tSame = TRUE]
          IN  ParOutcome(r0, lastAct'.raw[2], lastAct'.raw[1])

(*************************** judging the step with the shared formulas ***********)
ObOf(r) == [st |-> r.st, tRun |-> r.tRun, wsOpen |-> r.wsOpen, buf |-> Len(r.buf), ev |-> r.ev, panicked |-> r.panicked, hung |-> r.deadlocked]

Judged(e, act) == JudgeStep(RoleOf[e], Stored0[e], act, acc[e], ObOf(E'[e]))
JudgeAll ==
    LET act   == lastAct'
        whom  == IF act.a = "Sleep" THEN Endpoints
                 ELSE IF act.e \in Endpoints /\ act.a \notin {"PropagateClose", "Nop", "Tick"} THEN {act.e} ELSE {}
    IN  /\ acc'  = [x \in Endpoints |-> IF x \in whom THEN Judged(x, act).acc ELSE acc[x]]
        /\ viol' = UNION {Judged(x, act).bad : x \in whom}

(*************************** expected observation for the replay harness *********)
Expect(r) == [ st |-> r.st, tRun |-> r.tRun, tType |-> r.tType, lw |-> r.lastWaiting, reader |-> r.reader,
               buf |-> Len(r.buf), wsOpen |-> r.wsOpen, stored |-> r.stored, ev |-> r.ev,
               panicked |-> r.panicked, hung |-> r.deadlocked,
               pend |-> [i \in 1..Len(r.pending) |-> r.pending[i].k] ]
Pend(r) == [i \in 1..Len(r.pending) |-> r.pending[i].k]
\* "final" (one line per simulated behaviour): every step carries the full expectation; "edge" (one line per edge):
\* earlier steps only carry what the harness needs to pace real time, the last step carries the expectation
ActOut(a) == IF a.a = "Par" THEN [a |-> a.a, e |-> a.e, m |-> a.m, id |-> a.id, c1 |-> a.c1, c2 |-> a.c2] ELSE a
Step == IF EmitMode = "edge"
        THEN [a |-> ActOut(lastAct'), p |-> [e \in Endpoints |-> Pend(E'[e])]]
        ELSE [a |-> ActOut(lastAct'), x |-> [e \in Endpoints |-> Expect(E'[e])], n |-> [e \in Endpoints |-> Len(net'[e])]]
\* the pair at rest: nothing in flight, no delayed goroutine pending, no timer armed, closes propagated
Quiescent == /\ \A e \in Endpoints : Alive(E[e]) => (net[e] = <<>> \/ ~E[e].wsOpen)
             /\ \A e \in Endpoints : E[e].pending = <<>> /\ ~E[e].tRun
             /\ \A e \in Endpoints : E[e].ran
             /\ \A e \in Endpoints : E[e].wsOpen \/ EosSent(e) \/ ~E[Peer(e)].wsOpen
\* q: the state the behaviour ends in is a point of rest of the pair (only there JudgePair applies)
Last == IF lastAct'.a = "Par"
        THEN [x |-> [e \in Endpoints |-> Expect(E'[e])], n |-> [e \in Endpoints |-> Len(net'[e])],
              alt |-> [e \in Endpoints |-> Expect(IF e = lastAct'.e THEN ParAlt ELSE E'[e])], q |-> FALSE]
        ELSE [x |-> [e \in Endpoints |-> Expect(E'[e])], n |-> [e \in Endpoints |-> Len(net'[e])],
              q |-> IF Pair THEN Quiescent' ELSE FALSE]

Init == /\ E = [e \in Endpoints |-> InitRec(e)]
        /\ net = [e \in Endpoints |-> <<>>]
        /\ failBudget = MaxFail /\ userDone = FALSE /\ approvedPending = FALSE /\ approvedAny = FALSE /\ cancelled = FALSE
        /\ userClosed = FALSE /\ faults = FALSE
        /\ hb = HostileBudget /\ sleeps = 0 /\ parDone = FALSE
        /\ acc = [e \in Endpoints |-> Acc0(RoleOf[e], Paired0[e] \/ Auto0[e])]
        /\ viol = {}
        /\ lastAct = Act("init", "", "", "")
        /\ hist = <<>>

Env == \/ Tick \/ Sleep \/ Nop
       \/ \E e \in Endpoints :
           \/ Run(e) \/ Deliver(e) \/ PropagateClose(e) \/ FireTimeout(e)
           \/ Approve(e) \/ Cancel(e) \/ WsFail(e) \/ ConnError(e) \/ WriteSpine(e)
           \/ \E safe \in BOOLEAN : LocalClose(e, safe)
           \/ \E k \in 1..3 : ArmWriteFailure(e, k)
           \/ \E b \in BOOLEAN : SetAllowWait(e, b)
           \/ \E m \in AdvMsgs : Inject(e, m)
           \/ ParStep(e)

Next == /\ ~parDone
        /\ Env
        /\ parDone' = (lastAct'.a = "Par")
        /\ sleeps' = IF lastAct'.a = "Sleep" THEN sleeps + 1 ELSE sleeps
        /\ JudgeAll
        /\ hist' = IF EmitMode = "none" THEN hist ELSE Append(hist, Step)

Spec == Init /\ [][Next]_vars

(*************************** emission for the replay harness *********************)
EmitEdge  == EmitMode # "edge" \/ PrintT(<<"TEST", ToJson([h |-> hist', l |-> Last])>>)
EmitFinal == EmitMode # "final" \/ TLCGet("level") < SimDepth - 1 \/ PrintT(<<"TEST", ToJson([h |-> hist'])>>)
\* model-side violation keys (stage M diagnostics): printed, never a verdict about the code
EmitViol  == viol' = {} \/ PrintT(<<"MVIOL", ToJson([v |-> viol', act |-> lastAct'])>>)

(*************************** view: state identity without the step outputs *******)
RView(r) == [r EXCEPT !.ev = <<>>, !.outbox = <<>>]
View == <<[e \in Endpoints |-> RView(E[e])], net, failBudget, userDone, approvedPending, approvedAny, cancelled, userClosed, faults, hb, sleeps, acc, viol, parDone>>

(*************************** properties ********************************************)
\* every violation key the shared formulas produce on the model is a known finding
KnownModelKeys == {}
NoViolation == viol \subseteq KnownModelKeys
Props(ps) == \A v \in viol : v[1] \notin ps
Inv_C01 == Props({"C01"})
Inv_C04 == Props({"C04"})
Inv_C06 == Props({"C06"})
Inv_C08 == Props({"C08"})
Inv_C09 == Props({"C09"})
Inv_C11 == Props({"C11"})

\* C03 / C06 on the pair, at quiescence
PairOb(e) == [st |-> E[e].st, wsOpen |-> E[e].wsOpen, nSetup |-> acc[e].nSetup, idOk |-> E[e].idOk, nClosed |-> acc[e].nClosed]
TrustGiven == ~cancelled /\ \E e \in Endpoints : E[e].role = "server" /\ (Paired0[e] \/ Auto0[e] \/ approvedPending)
IdsCompatible == \A e \in Endpoints : Stored0[e] = "none" \/ Stored0[e] = MyId[Peer(e)]
TrustAny == \E e \in Endpoints : E[e].role = "server" /\ (Paired0[e] \/ Auto0[e] \/ approvedAny)
PairQ == [timely |-> TimelyMode, trustGiven |-> TrustGiven, trustAny |-> TrustAny, idsCompatible |-> IdsCompatible,
          faultFree |-> ~faults, userClosed |-> userClosed]
PairViol == IF Pair /\ Quiescent THEN JudgePair(PairOb("c"), PairOb("s"), PairQ) ELSE {}
\* known finding C03/approve-before-hello: the user approved while the client's hello was still in flight
KF_C03_1 == approvedPending /\ \E e \in Endpoints : E[e].lateHello
Inv_C03 == PairViol = {} \/ KF_C03_1
Inv_C03_strict == PairViol = {}
KF_C03_1_unreachable == ~(KF_C03_1 /\ Quiescent /\ PairViol # {})
\* C06 on the pair: what an endpoint delivered is a prefix of what its peer wrote, everything at quiescence
Inv_C06_pair == Pair => \A e \in Endpoints :
                   /\ Len(acc[e].del) <= Len(acc[e].inj)
                   /\ \A i \in 1..Len(acc[e].del) : acc[e].del[i] = acc[e].inj[i]
====
