---- MODULE WsConn ----
(***************************************************************************)
(* ws/websocket.go: one websocket data connection, at the granularity of    *)
(* the code's observable atomicity (DESIGN.md Appendix D):                  *)
(*   Writer[w]  WriteMessageToWebsocketConnection: lock muxShipWrite,        *)
(*              closed-check, channel send (capacity 1), unlock             *)
(*   WritePump  select {closeChannel | message | (ticker)}; closed-check;    *)
(*              writeMessage = closed-check, then the transport write        *)
(*   ReadPump   select/closed-check; blocking read; closed-check; deliver     *)
(*   close()    under its once, with the early return when already closed    *)
(*   Closer     CloseDataConnection without a reason (local close), or with  *)
(*              a reason: a close frame for the peer - which reacts to it by  *)
(*              dropping the connection - and close()                        *)
(*   SHIP layer reacts to ReportConnectionError with CloseDataConnection     *)
(* Environment: peer EOF, a failing transport write, a blocked transport     *)
(* write.  Properties C12 (write vs close) and C13 (loss is reported and     *)
(* releases pumps and socket).  Defects = behaviours of the unchanged tree   *)
(* that the current tree still has.                                          *)
(***************************************************************************)
EXTENDS Naturals, Sequences, FiniteSets, TLC
CONSTANTS Writers, MsgsPerWriter, Defects, InitFrames, MaxFaults, AllowBlock
DefectNames == {"chanClose",        \* the write pump closes shipWriteChannel on exit: a blocked / late sender panics
                "writeErrLeak",     \* closeWithError marks the connection closed before close() runs: close() returns early
                "closeReported",    \* a transport write failing because of a local close is reported as a connection error
                "deliverReadAfterClose", \* (a seeded change) the closed-check after a read only looks at failed reads: a frame read after the
                                    \* connection was marked closed is still delivered
                "frameBeforeMark"}  \* close with a reason: the close frame is written before the connection is marked closed
ASSUME Defects \subseteq DefectNames
Has(d) == d \in Defects
OneFrame == <<"f1">>
TwoFrames == <<"f1", "f2">>
NoFrames == <<>>
VARIABLES closed, closedErr, closeChan, wchan, wchanClosed, once, connClosed, mux,
          wpc, wleft, wres, ppc, pmsg, rpc, rframe, toPeer, fromPeer, eof, failNext, blocked,
          reports, panicked, delivered, closerDone, faults, accepted, lateDeliver, nblock, cpc, peerClosing
vars == <<closed, closedErr, closeChan, wchan, wchanClosed, once, connClosed, mux,
          wpc, wleft, wres, ppc, pmsg, rpc, rframe, toPeer, fromPeer, eof, failNext, blocked,
          reports, panicked, delivered, closerDone, faults, accepted, lateDeliver, nblock, cpc, peerClosing>>

Init == /\ closed = FALSE /\ closedErr = FALSE /\ closeChan = FALSE /\ wchan = <<>> /\ wchanClosed = FALSE
        /\ once = FALSE /\ connClosed = FALSE /\ mux = 0
        /\ wpc = [w \in Writers |-> "idle"] /\ wleft = [w \in Writers |-> MsgsPerWriter] /\ wres = [w \in Writers |-> <<>>]
        /\ ppc = "select" /\ pmsg = <<>> /\ rpc = "top" /\ rframe = "none"
        /\ toPeer = <<>> /\ fromPeer = InitFrames /\ eof = FALSE /\ failNext = FALSE /\ blocked = FALSE
        /\ reports = 0 /\ panicked = {} /\ delivered = <<>> /\ closerDone = FALSE /\ faults = 0
        /\ accepted = <<>> /\ lateDeliver = 0 /\ nblock = 0 /\ cpc = "idle" /\ peerClosing = FALSE

\* close(): sync.Once; early return if already marked closed
CloseEffect ==
    IF once THEN UNCHANGED <<once, closed, closeChan, connClosed>>
    ELSE /\ once' = TRUE
         /\ IF closed THEN UNCHANGED <<closed, closeChan, connClosed>>
            ELSE closed' = TRUE /\ closeChan' = TRUE /\ connClosed' = TRUE

\* ---------------- writers: WriteMessageToWebsocketConnection
WLock(w)  == wpc[w] = "idle" /\ wleft[w] > 0 /\ mux = 0 /\ mux' = w /\ wpc' = [wpc EXCEPT ![w] = "check"]
             /\ UNCHANGED <<closed, closedErr, closeChan, wchan, wchanClosed, once, connClosed, wleft, wres, ppc, pmsg, rpc, rframe, toPeer, fromPeer, eof, failNext, blocked, reports, panicked, delivered, closerDone, faults, accepted, lateDeliver, nblock, cpc, peerClosing>>
WCheck(w) == wpc[w] = "check" /\
             (IF closed THEN /\ wpc' = [wpc EXCEPT ![w] = "idle"] /\ mux' = 0
                            /\ wleft' = [wleft EXCEPT ![w] = 0] /\ wres' = [wres EXCEPT ![w] = Append(@, "err")]
                       ELSE /\ wpc' = [wpc EXCEPT ![w] = "send"] /\ UNCHANGED <<mux, wleft, wres>>)
             /\ UNCHANGED <<closed, closedErr, closeChan, wchan, wchanClosed, once, connClosed, ppc, pmsg, rpc, rframe, toPeer, fromPeer, eof, failNext, blocked, reports, panicked, delivered, closerDone, faults, accepted, lateDeliver, nblock, cpc, peerClosing>>
\* as is: a plain channel send (panics if the pump closed the channel, blocks forever if nobody receives any more);
\* repaired: select { send | <-closeChannel -> error }
WSend(w)  == wpc[w] = "send" /\
             (\/ /\ wchanClosed                                   \* send on a closed channel
                 /\ panicked' = panicked \cup {w} /\ mux' = 0 /\ wpc' = [wpc EXCEPT ![w] = "dead"]
                 /\ UNCHANGED <<wchan, wleft, wres, accepted>>
              \/ /\ ~wchanClosed /\ Len(wchan) < 1                \* the channel has room: accepted
                 /\ wchan' = Append(wchan, <<w, wleft[w]>>) /\ mux' = 0
                 /\ accepted' = Append(accepted, <<w, wleft[w]>>)
                 /\ wpc' = [wpc EXCEPT ![w] = "idle"] /\ wleft' = [wleft EXCEPT ![w] = @ - 1]
                 /\ wres' = [wres EXCEPT ![w] = Append(@, "ok")] /\ UNCHANGED panicked
              \/ /\ ~Has("chanClose") /\ closeChan                \* repaired: the closed connection wins the select
                 /\ wpc' = [wpc EXCEPT ![w] = "idle"] /\ mux' = 0 /\ wleft' = [wleft EXCEPT ![w] = 0]
                 /\ wres' = [wres EXCEPT ![w] = Append(@, "err")] /\ UNCHANGED <<wchan, panicked, accepted>>)
             /\ UNCHANGED <<closed, closedErr, closeChan, wchanClosed, once, connClosed, ppc, pmsg, rpc, rframe, toPeer, fromPeer, eof, failNext, blocked, reports, delivered, closerDone, faults, lateDeliver, nblock, cpc, peerClosing>>

\* ---------------- write pump
PSelectClose == ppc = "select" /\ closeChan /\ ppc' = "exit"
                /\ UNCHANGED <<closed, closedErr, closeChan, wchan, wchanClosed, once, connClosed, mux, wpc, wleft, wres, pmsg, rpc, rframe, toPeer, fromPeer, eof, failNext, blocked, reports, panicked, delivered, closerDone, faults, accepted, lateDeliver, nblock, cpc, peerClosing>>
PSelectMsg   == ppc = "select" /\ wchan # <<>> /\ pmsg' = Head(wchan) /\ wchan' = Tail(wchan)
                /\ ppc' = (IF closed THEN "exit" ELSE "write")
                /\ UNCHANGED <<closed, closedErr, closeChan, wchanClosed, once, connClosed, mux, wpc, wleft, wres, rpc, rframe, toPeer, fromPeer, eof, failNext, blocked, reports, panicked, delivered, closerDone, faults, accepted, lateDeliver, nblock, cpc, peerClosing>>
\* writeMessage(): closed-check, then the transport write as a separate step (the connection can be closed in between)
PWrite       == ppc = "write" /\
                (IF closed THEN ppc' = "exit" ELSE ppc' = "write2")
                /\ UNCHANGED <<closed, closedErr, closeChan, wchan, wchanClosed, once, connClosed, mux, wpc, wleft, wres, pmsg, rpc, rframe, toPeer, fromPeer, eof, failNext, blocked, reports, panicked, delivered, closerDone, faults, accepted, lateDeliver, nblock, cpc, peerClosing>>
\* the transport write fails (injected fault, or the socket was closed under it)
\*   as is:     closeWithError = mark closed with the error, ReportConnectionError - close() is never run here
\*   repaired:  close() first (closeChannel, conn.Close), then the error; not reported if the connection was already closed
PWrite2      == ppc = "write2" /\ ~blocked /\
                (IF failNext \/ connClosed
                 THEN /\ ppc' = "exit" /\ failNext' = FALSE /\ UNCHANGED toPeer
                      /\ IF Has("writeErrLeak")
                         THEN /\ closed' = TRUE /\ closedErr' = TRUE /\ reports' = reports + 1
                              /\ UNCHANGED <<once, closeChan, connClosed>>
                         ELSE IF closed /\ ~Has("closeReported")
                         THEN UNCHANGED <<closed, closedErr, reports, once, closeChan, connClosed>>
                         ELSE /\ CloseEffect /\ closedErr' = TRUE /\ reports' = reports + 1
                 ELSE /\ toPeer' = Append(toPeer, pmsg) /\ ppc' = "select"
                      /\ UNCHANGED <<closed, closedErr, reports, failNext, once, closeChan, connClosed>>)
                /\ UNCHANGED <<wchan, wchanClosed, mux, wpc, wleft, wres, pmsg, rpc, rframe, fromPeer, eof, blocked, panicked, delivered, closerDone, faults, accepted, lateDeliver, nblock, cpc, peerClosing>>
PExit        == ppc = "exit" /\ ppc' = "done" /\ wchanClosed' = (IF Has("chanClose") THEN TRUE ELSE wchanClosed)
                /\ UNCHANGED <<closed, closedErr, closeChan, wchan, once, connClosed, mux, wpc, wleft, wres, pmsg, rpc, rframe, toPeer, fromPeer, eof, failNext, blocked, reports, panicked, delivered, closerDone, faults, accepted, lateDeliver, nblock, cpc, peerClosing>>

\* ---------------- read pump
RTop   == rpc = "top" /\ rpc' = (IF closeChan \/ closed THEN "done" ELSE "reading")
          /\ UNCHANGED <<closed, closedErr, closeChan, wchan, wchanClosed, once, connClosed, mux, wpc, wleft, wres, ppc, pmsg, rframe, toPeer, fromPeer, eof, failNext, blocked, reports, panicked, delivered, closerDone, faults, accepted, lateDeliver, nblock, cpc, peerClosing>>
RRead  == rpc = "reading" /\
          \* ("gotLate": the read returned a frame after the connection had been marked closed)
          \/ (fromPeer # <<>> /\ ~connClosed /\ rframe' = Head(fromPeer) /\ fromPeer' = Tail(fromPeer) /\ rpc' = (IF closed THEN "gotLate" ELSE "got"))
          \/ ((connClosed \/ (eof /\ fromPeer = <<>>)) /\ rframe' = "error" /\ rpc' = "got" /\ UNCHANGED fromPeer)
          /\ UNCHANGED <<closed, closedErr, closeChan, wchan, wchanClosed, once, connClosed, mux, wpc, wleft, wres, ppc, pmsg, toPeer, eof, failNext, blocked, reports, panicked, delivered, closerDone, faults, accepted, lateDeliver, nblock, cpc, peerClosing>>
RGot   == rpc \in {"got", "gotLate"} /\
          (IF closed /\ ~(Has("deliverReadAfterClose") /\ rframe # "error")
           THEN rpc' = "done" /\ UNCHANGED <<once, closed, closeChan, connClosed, closedErr, reports>>
          ELSE IF rframe = "error"
               THEN CloseEffect /\ closedErr' = TRUE /\ reports' = reports + 1 /\ rpc' = "done"
               ELSE rpc' = "checked" /\ UNCHANGED <<once, closed, closeChan, connClosed, closedErr, reports>>)
          /\ UNCHANGED <<wchan, wchanClosed, mux, wpc, wleft, wres, ppc, pmsg, rframe, toPeer, fromPeer, eof, failNext, blocked, panicked, delivered, closerDone, faults, accepted, lateDeliver, nblock, cpc, peerClosing>>
\* the window between the second closed-check and the delivery: one message may arrive after the close
RDeliver == rpc = "checked" /\ delivered' = Append(delivered, rframe) /\ rpc' = "top"
          /\ lateDeliver' = (IF closed THEN lateDeliver + 1 ELSE lateDeliver)
          /\ UNCHANGED <<closed, closedErr, closeChan, wchan, wchanClosed, once, connClosed, mux, wpc, wleft, wres, ppc, pmsg, rframe, toPeer, fromPeer, eof, failNext, blocked, reports, panicked, closerDone, faults, accepted, nblock, cpc, peerClosing>>

\* ---------------- environment
LocalClose == ~closerDone /\ closerDone' = TRUE /\ CloseEffect
          /\ UNCHANGED <<closedErr, wchan, wchanClosed, mux, wpc, wleft, wres, ppc, pmsg, rpc, rframe, toPeer, fromPeer, eof, failNext, blocked, reports, panicked, delivered, faults, accepted, lateDeliver, nblock, cpc, peerClosing>>
\* CloseDataConnection(code, reason) with a reason: a close frame for the peer, and close().
\*   as is:    writeMessageWithoutErrorHandling (closed-check, transport write, errors ignored), then close(): the peer's
\*             reaction to the frame can be read before the connection is marked closed
\*   repaired: under the once - mark closed, close channel; then the frame; then the socket
Rest1 == <<closedErr, wchan, wchanClosed, mux, wpc, wleft, wres, ppc, pmsg, rpc, rframe, toPeer, fromPeer, eof, failNext, blocked, reports, panicked, delivered, faults, accepted, lateDeliver, nblock>>
CReasonFrame == /\ ~closerDone /\ cpc = "idle" /\ Has("frameBeforeMark") /\ closerDone' = TRUE /\ cpc' = "framed"
                /\ peerClosing' = (IF closed \/ connClosed THEN peerClosing ELSE TRUE)
                /\ UNCHANGED <<once, closed, closeChan, connClosed>> /\ UNCHANGED Rest1
CReasonClose == /\ cpc = "framed" /\ cpc' = "done" /\ CloseEffect /\ UNCHANGED peerClosing /\ UNCHANGED <<closerDone>> /\ UNCHANGED Rest1
CReasonMark  == /\ ~closerDone /\ cpc = "idle" /\ ~Has("frameBeforeMark") /\ closerDone' = TRUE
                /\ (IF once THEN cpc' = "done" /\ UNCHANGED <<once, closed, closeChan>>
                    ELSE /\ once' = TRUE
                         /\ (IF closed THEN cpc' = "done" /\ UNCHANGED <<closed, closeChan>>
                             ELSE closed' = TRUE /\ closeChan' = TRUE /\ cpc' = "marked"))
                /\ UNCHANGED <<connClosed, peerClosing>> /\ UNCHANGED Rest1
CReasonSend  == /\ cpc = "marked" /\ cpc' = "done" /\ peerClosing' = TRUE /\ connClosed' = TRUE
                /\ UNCHANGED <<once, closed, closeChan, closerDone>> /\ UNCHANGED Rest1
\* the peer got the close frame and drops the connection - its normal reaction, not a transport fault
PeerReacts   == /\ peerClosing /\ ~eof /\ eof' = TRUE
                /\ UNCHANGED <<closed, closedErr, closeChan, wchan, wchanClosed, once, connClosed, mux, wpc, wleft, wres, ppc, pmsg, rpc, rframe, toPeer, fromPeer, failNext, blocked, reports, panicked, delivered, closerDone, faults, accepted, lateDeliver, nblock, cpc, peerClosing>>
CloserSteps == CReasonClose \/ CReasonSend
\* what the SHIP layer does when told about an error: CloseConnection -> CloseDataConnection(code, "")
ShipReacts == reports > 0 /\ ~once /\ CloseEffect
          /\ UNCHANGED <<closedErr, wchan, wchanClosed, mux, wpc, wleft, wres, ppc, pmsg, rpc, rframe, toPeer, fromPeer, eof, failNext, blocked, reports, panicked, delivered, closerDone, faults, accepted, lateDeliver, nblock, cpc, peerClosing>>
PeerEof  == ~eof /\ faults < MaxFaults /\ eof' = TRUE /\ faults' = faults + 1
          /\ UNCHANGED <<closed, closedErr, closeChan, wchan, wchanClosed, once, connClosed, mux, wpc, wleft, wres, ppc, pmsg, rpc, rframe, toPeer, fromPeer, failNext, blocked, reports, panicked, delivered, closerDone, accepted, lateDeliver, nblock, cpc, peerClosing>>
WriteFault == ~failNext /\ faults < MaxFaults /\ failNext' = TRUE /\ faults' = faults + 1
          /\ UNCHANGED <<closed, closedErr, closeChan, wchan, wchanClosed, once, connClosed, mux, wpc, wleft, wres, ppc, pmsg, rpc, rframe, toPeer, fromPeer, eof, blocked, reports, panicked, delivered, closerDone, accepted, lateDeliver, nblock, cpc, peerClosing>>
\* the transport stops accepting bytes for a while (full socket buffer), then resumes
Block   == AllowBlock /\ ~blocked /\ nblock = 0 /\ blocked' = TRUE /\ nblock' = 1
          /\ UNCHANGED <<closed, closedErr, closeChan, wchan, wchanClosed, once, connClosed, mux, wpc, wleft, wres, ppc, pmsg, rpc, rframe, toPeer, fromPeer, eof, failNext, reports, panicked, delivered, closerDone, faults, accepted, lateDeliver, cpc, peerClosing>>
Unblock == blocked /\ blocked' = FALSE
          /\ UNCHANGED <<closed, closedErr, closeChan, wchan, wchanClosed, once, connClosed, mux, wpc, wleft, wres, ppc, pmsg, rpc, rframe, toPeer, fromPeer, eof, failNext, reports, panicked, delivered, closerDone, faults, accepted, lateDeliver, nblock, cpc, peerClosing>>

Lib  == (\E w \in Writers : WLock(w) \/ WCheck(w) \/ WSend(w)) \/ PSelectClose \/ PSelectMsg \/ PWrite \/ PWrite2 \/ PExit
        \/ RTop \/ RRead \/ RGot \/ RDeliver \/ ShipReacts \/ Unblock \/ CloserSteps
Env  == LocalClose \/ CReasonFrame \/ CReasonMark \/ PeerReacts \/ PeerEof \/ WriteFault \/ Block
Next == Lib \/ Env
WriterSteps(w) == WLock(w) \/ WCheck(w) \/ WSend(w)
PumpSteps == PSelectClose \/ PSelectMsg \/ PWrite \/ PWrite2 \/ PExit
ReaderSteps == RTop \/ RRead \/ RGot \/ RDeliver
Fairness == /\ \A w \in Writers : WF_vars(WriterSteps(w))
            /\ WF_vars(PumpSteps) /\ WF_vars(ReaderSteps) /\ WF_vars(ShipReacts) /\ WF_vars(Unblock) /\ WF_vars(CloserSteps)
Spec == Init /\ [][Next]_vars /\ Fairness

(*************************** C12 ***********************************************)
P_C12_NoPanic == panicked = {}
\* a write that starts once the connection is closed returns an error (WCheck), and every started write returns
L_C12_Returns == \A w \in Writers : (wpc[w] # "idle") ~> (wpc[w] = "idle")
\* what the peer got is a gap-free prefix of the accepted messages, in acceptance order
IsPrefix(s, t) == Len(s) <= Len(t) /\ \A i \in 1..Len(s) : s[i] = t[i]
P_C12_Prefix == IsPrefix(toPeer, accepted)

(*************************** C13 ***********************************************)
\* after a deliberate local close (and no transport fault) the SHIP layer is not told an error
P_C13_QuietLocalClose == (closerDone /\ faults = 0) => reports = 0
\* a fault that closed the connection was reported, and the closed-query answers with a non-nil error
P_C13_Reported == (closed /\ ~closerDone /\ ppc = "done" /\ rpc = "done") => (reports >= 1 /\ closedErr)
\* at most the one message that was already taken off the transport is delivered after the close
P_C13_NoLateDelivery == lateDeliver <= 1
\* ... and a frame the read pump took off the transport after the connection was marked closed is dropped
P_C13_ReadAfterCloseDropped == [][rpc = "gotLate" => rpc' \in {"gotLate", "done"}]_vars
Released == ppc = "done" /\ rpc = "done" /\ connClosed
L_C13_Released == closed ~> Released
====
