---- MODULE MdnsOracle ----
(***************************************************************************)
(* C17 (a) as a requirement: the table of visible services as a function   *)
(* of the history of resolver events.  Used by the model (MdnsMgr.tla) and  *)
(* by the monitor pass over the real manager's observations (MonMdns.tla).  *)
(***************************************************************************)
EXTENDS Naturals, Sequences, FiniteSets, TLC
Addrs    == {"v4a", "v4b", "v6g", "v6ll"}
Usable(A) == A \ {"v6ll"}                       \* IPv6 link-local addresses are dropped
TxtClasses == {"valid", "validBadCat", "noVers", "vers2", "noId", "noPath", "noSki", "ownSki", "regNotBool"}
ValidTxt(c) == c \in {"valid", "validBadCat"}

\* ---- the requirement: the table as a function of the event history
ApplyEv(tab, e) ==
    IF ~ValidTxt(e.txt) THEN tab
    ELSE IF e.remove THEN [s \in DOMAIN tab \ {e.s} |-> tab[s]]
    ELSE IF e.s \in DOMAIN tab THEN [tab EXCEPT ![e.s] = @ \cup Usable(e.addrs)]
    ELSE [s \in DOMAIN tab \cup {e.s} |-> IF s = e.s THEN Usable(e.addrs) ELSE tab[s]]
Empty == [s \in {} |-> {}]
RECURSIVE OracleF(_, _)
OracleF(h, i) == IF i = 0 THEN Empty ELSE ApplyEv(OracleF(h, i - 1), h[i])

====
