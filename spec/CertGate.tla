---- MODULE CertGate ----
(***************************************************************************)
(* C02 as a decision table.  Inbound: which (client certificate, SKI        *)
(* length, binding of the SKI to the key, TLS version, sub-protocol offer)  *)
(* must be refused before any SHIP message is processed, and to which SKI   *)
(* an accepted connection is attributed.  Outbound: for which (dialled SKI, *)
(* presented certificate) the hub may start SHIP.  Generator: what          *)
(* certificates of the library's own generator look like.  TLC enumerates   *)
(* the tables; MonCert.tla evaluates Expected on what the real hub did.     *)
(***************************************************************************)
EXTENDS Naturals, Sequences, FiniteSets, TLC, Json
CONSTANT FullLens                               \* TRUE: every SKI length meets every binding / TLS version / sub-protocol offer
SkiLens == 0..40 \cup {64}                       \* bytes in the Subject Key Identifier extension; 0 = no such extension
Corner == {0, 1, 19, 20, 21, 32, 40}
Bindings == {"ownKey", "copied", "random"}     \* SHA-1 of the certificate's own key / the SKI of another device / arbitrary bytes
TlsVersions == {10, 11, 12, 13}
SubProtos == {"none", "ship", "other", "otherShip"}
\* what follows the leaf in the certificate chain the client sends: nothing, or the (public) certificate of another device -
\* only the leaf's key is proven in the TLS handshake, so only the leaf may decide
Chains == {"leaf", "plusVictim"}
Inbound == { [dir |-> "in", cert |-> c, skiLen |-> l, binding |-> b, tls |-> t, sub |-> s, chain |-> ch] :
               c \in BOOLEAN, l \in SkiLens, b \in Bindings, t \in TlsVersions, s \in SubProtos, ch \in Chains }
ValidIn(r) == (~r.cert => (r.skiLen = 0 /\ r.binding = "ownKey" /\ r.chain = "leaf"))
              /\ (r.chain = "plusVictim" => ((FullLens \/ r.skiLen \in Corner) /\ r.tls >= 12 /\ r.sub = "ship"))
              /\ (r.skiLen = 0 => r.binding = "ownKey")
              /\ ((~FullLens /\ r.skiLen \notin Corner) => (r.binding = "ownKey" /\ r.tls >= 12 /\ r.sub = "ship"))
\* the requirement
AcceptIn(r) == r.cert /\ r.skiLen = 20 /\ r.binding = "ownKey" /\ r.tls >= 12 /\ r.sub \in {"ship", "otherShip"}

\* what the dialled server presents: the dialled device's certificate; another key with the dialled SKI written into it; another
\* device's certificate; no SKI; "ownLen": a certificate whose SKI has n # 20 bytes, and exactly that SKI (2n hex digits) was dialled
\* "otherPaired": another device's certificate, and that device is itself paired with this hub (trusted - but it is not the one
\* that was dialled: a paired device must not pass as another paired device)
Presented == {"same", "sameSkiOtherKey", "other", "otherPaired", "absent", "ownLen"}
Outbound == { [dir |-> "out", presented |-> p, len |-> n] : p \in Presented, n \in SkiLens }
ValidOut(r) == IF r.presented = "ownLen" THEN r.len \notin {0, 20} /\ (FullLens \/ r.len \in Corner) ELSE r.len = 20
AcceptOut(r) == r.presented = "same"

Subjects == {"plain", "empty", "utf8", "long", "special", "manyKeys"}     \* manyKeys: 700 certificates, i.e. 700 fresh keys
Generator == { [dir |-> "gen", subject |-> s] : s \in Subjects }

\* result: [accepted, shipSeen, attributed ("" or a SKI), certSki (the SKI extension of the presented certificate, hex)]
Judge(r, res) ==
    CASE r.dir = "in" ->
           (IF ~AcceptIn(r) /\ (res.accepted \/ res.shipSeen)
            THEN {<<"C02", "inbound-not-refused", IF r.cert /\ r.skiLen = 20 /\ r.binding # "ownKey" /\ r.tls >= 12 /\ r.sub \in {"ship", "otherShip"}
                                                  THEN "ski-not-bound-to-key" ELSE "gate", r.skiLen, r.binding, r.tls, r.sub, r.chain>>} ELSE {})
           \cup (IF AcceptIn(r) /\ ~res.shipSeen THEN {<<"C02", "genuine-peer-refused", r.tls, r.sub>>} ELSE {})
           \cup (IF AcceptIn(r) /\ res.shipSeen /\ res.attributed # res.certSki THEN {<<"C02", "attributed-to-wrong-ski">>} ELSE {})
      [] r.dir = "out" ->
           (IF ~AcceptOut(r) /\ res.shipSeen
            THEN {<<"C02", "outbound-ship-started", IF r.presented = "sameSkiOtherKey" THEN "ski-not-bound-to-key" ELSE "gate", r.presented, r.len>>} ELSE {})
           \cup (IF AcceptOut(r) /\ ~res.shipSeen THEN {<<"C02", "genuine-server-refused">>} ELSE {})
      [] r.dir = "gen" ->
           (IF ~(res.skiIs40LowerHex /\ res.skiIsSha1OfKey /\ res.passesGate) THEN {<<"C02", "generated-certificate-wrong", r.subject>>} ELSE {})
====
