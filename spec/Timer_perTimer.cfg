SPECIFICATION Spec
CONSTANTS MaxArms = 4
 Design = "perTimer"
PROPERTY Refines
INVARIANT NoStaleFire
CHECK_DEADLOCK FALSE
