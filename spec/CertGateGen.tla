---- MODULE CertGateGen ----
EXTENDS CertGate
VARIABLE done
Init == done = FALSE
Next == /\ ~done /\ done' = TRUE
        /\ \A r \in Inbound : ValidIn(r) => PrintT(<<"TEST", ToJson(r)>>)
        /\ \A r \in Outbound : ValidOut(r) => PrintT(<<"TEST", ToJson(r)>>)
        /\ \A r \in Generator : PrintT(<<"TEST", ToJson(r)>>)
\* table sanity: exactly the rows the requirement names are accepted, the table is total
Sane == /\ \A r \in Inbound : (AcceptIn(r) /\ r.chain = "leaf") => ValidIn(r)
        /\ Cardinality({r \in Inbound : ValidIn(r) /\ AcceptIn(r)}) = 6
        /\ Cardinality({r \in Outbound : ValidOut(r) /\ AcceptOut(r)}) = 1
ASSUME Sane
Spec == Init /\ [][Next]_done
====
