---- MODULE EebusJson ----
(***************************************************************************)
(* C07: the EEBUS JSON shape SHIP prescribes (a requirement: every object   *)
(* becomes an array of single-member objects, at every level) and the       *)
(* textual inverse ship/helper.go implements (four ordered ReplaceAll        *)
(* passes), both over character tokens - brackets inside strings are the     *)
(* SAME tokens as structural ones, which is exactly why the textual inverse  *)
(* can go wrong.  Documents are bounded trees.  TLC enumerates all of them:  *)
(*   Benign(d) => RoundTrip(d)  is a theorem about the textual inverse       *)
(*   within the bound, and the known-finding classes are non-empty.          *)
(* The same operators judge what the REAL functions produced (MonJson.tla).  *)
(***************************************************************************)
EXTENDS Naturals, Sequences, FiniteSets, TLC, Json
Keys == {"a", "b"}
\* string contents as token sequences
Strs == {<<"x">>, <<"[", "{">>, <<"[", "]">>, <<"}", ",", "{">>, <<"}", "]">>, <<",">>, <<"q">>, <<"x", "[", "]", "x">>}
Scalars == {[k |-> "num"], [k |-> "big"], [k |-> "lit"], [k |-> "nul"]} \cup {[k |-> "str", s |-> s] : s \in Strs}
Objs2(V) == {[k |-> "obj", m |-> <<>>]}
           \cup {[k |-> "obj", m |-> <<<<key, v>>>>] : key \in Keys, v \in V}
           \cup {[k |-> "obj", m |-> <<<<"a", v1>>, <<"b", v2>>>>] : v1 \in V, v2 \in V}
           \cup {[k |-> "obj", m |-> <<<<"b", v1>>, <<"a", v2>>>>] : v1 \in V, v2 \in V}
Arrs(V) == {[k |-> "arr", e |-> <<>>]} \cup {[k |-> "arr", e |-> <<v>>] : v \in V} \cup {[k |-> "arr", e |-> <<v1, v2>>] : v1 \in V, v2 \in V}

RECURSIVE Ser(_), SerMembers(_), SerElems(_), ToEebus(_)
Q == <<"\"">>
SerKey(key) == Q \o <<key>> \o Q \o <<":">>
Ser(d) == CASE d.k = "num" -> <<"1">> [] d.k = "big" -> <<"9">> [] d.k = "lit" -> <<"t">> [] d.k = "nul" -> <<"n">>
            [] d.k = "str" -> Q \o d.s \o Q
            [] d.k = "obj" -> <<"{">> \o SerMembers(d.m) \o <<"}">>
            [] d.k = "arr" -> <<"[">> \o SerElems(d.e) \o <<"]">>
SerMembers(m) == IF m = <<>> THEN <<>>
                 ELSE SerKey(m[1][1]) \o Ser(m[1][2]) \o (IF Len(m) > 1 THEN <<",">> \o SerMembers(Tail(m)) ELSE <<>>)
SerElems(e) == IF e = <<>> THEN <<>> ELSE Ser(e[1]) \o (IF Len(e) > 1 THEN <<",">> \o SerElems(Tail(e)) ELSE <<>>)

\* requirement: every object becomes an array of single-member objects, at every level, and nothing else changes
ToEebus(d) == CASE d.k = "obj" -> [k |-> "arr", e |-> [i \in 1..Len(d.m) |-> [k |-> "obj", m |-> <<<<d.m[i][1], ToEebus(d.m[i][2])>>>>]]]
                [] d.k = "arr" -> [k |-> "arr", e |-> [i \in 1..Len(d.e) |-> ToEebus(d.e[i])]]
                [] OTHER -> d
\* the wire form of a top-level object: the outermost array brackets are stripped (SHIP messages are sent that way)
Wire(d) == LET t == Ser(ToEebus(d)) IN SubSeq(t, 2, Len(t) - 1)

RECURSIVE ReplaceAll(_, _, _)
StartsWith(t, p) == Len(t) >= Len(p) /\ SubSeq(t, 1, Len(p)) = p
ReplaceAll(t, p, r) == IF t = <<>> THEN <<>>
                       ELSE IF StartsWith(t, p) THEN r \o ReplaceAll(SubSeq(t, Len(p) + 1, Len(t)), p, r)
                       ELSE <<t[1]>> \o ReplaceAll(Tail(t), p, r)
\* JsonFromEEBUSJson as implemented: four ordered textual passes
Back(t) == ReplaceAll(ReplaceAll(ReplaceAll(ReplaceAll(t, <<"[", "{">>, <<"{">>), <<"}", ",", "{">>, <<",">>), <<"}", "]">>, <<"}">>), <<"[", "]">>, <<"{", "}">>)

RoundTrip(d) == Back(Wire(d)) = Ser(d)

\* the classes of documents for which the textual inverse is known to fail
RECURSIVE HasEmptyArr(_), HasBadStr(_)
HasEmptyArr(d) == CASE d.k = "arr" -> d.e = <<>> \/ \E i \in 1..Len(d.e) : HasEmptyArr(d.e[i])
                    [] d.k = "obj" -> \E i \in 1..Len(d.m) : HasEmptyArr(d.m[i][2])
                    [] OTHER -> FALSE
Contains(s, p) == \E i \in 1..Len(s) : i + Len(p) - 1 <= Len(s) /\ SubSeq(s, i, i + Len(p) - 1) = p
BadPat == {<<"[", "{">>, <<"}", ",", "{">>, <<"}", "]">>, <<"[", "]">>}
HasBadStr(d) == CASE d.k = "str" -> \E p \in BadPat : Contains(d.s, p)
                  [] d.k = "arr" -> \E i \in 1..Len(d.e) : HasBadStr(d.e[i])
                  [] d.k = "obj" -> \E i \in 1..Len(d.m) : HasBadStr(d.m[i][2])
                  [] OTHER -> FALSE
Class(d) == IF d.m = <<>> THEN "top-level-empty-object"
            ELSE IF HasEmptyArr(d) THEN "empty-array"
            ELSE IF HasBadStr(d) THEN "pattern-in-string"
            ELSE "benign"
Benign(d) == Class(d) = "benign"
====
