---- MODULE MdnsText ----
(***************************************************************************)
(* C16 as a requirement over abstract strings.  A string is a sequence of  *)
(* atoms with a byte width: "a" (1 byte ASCII), "e2" "e3" "e4" (one rune of *)
(* 2 / 3 / 4 bytes) and the three characters the formats are sensitive to   *)
(* ("eq" =, "semi" ;, "colon" :) or that a careless implementation is ("pct" %).  A test string is k ASCII bytes followed  *)
(* by up to two atoms, with k chosen so that the 32 byte limit falls at     *)
(* every offset of every rune width.  TLC enumerates the configuration      *)
(* table (Rows); the monitor pass (MonText.tla) evaluates Announced / Parsed *)
(* / Qr on what the real code produced for each row.                         *)
(***************************************************************************)
EXTENDS Naturals, Sequences, FiniteSets, TLC, Json
Atoms == {"a", "e2", "e3", "e4", "eq", "semi", "colon", "pct", "sp"}      \* sp: a blank (at the end of a value it is easily "trimmed")    \* pct: '%', harmless - unless a text is used as a format string
Width(x) == CASE x = "e2" -> 2 [] x = "e3" -> 3 [] x = "e4" -> 4 [] OTHER -> 1
RECURSIVE ByteLen(_)
ByteLen(s) == IF s = <<>> THEN 0 ELSE Width(Head(s)) + ByteLen(Tail(s))
IsPrefix(p, s) == Len(p) <= Len(s) /\ \A i \in 1..Len(p) : p[i] = s[i]
Without(s, x) == SelectSeq(s, LAMBDA y : y # x)

\* a string is [k, tail]: k ASCII bytes, then the atoms of tail
Full(str) == [i \in 1..str.k |-> "a"] \o str.tail

(* ---- requirement: what may be announced for a 32-byte limited field ---- *)
AnnouncedOK(out, in) == /\ IsPrefix(out, in) /\ ByteLen(out) <= 32
                        /\ (ByteLen(in) <= 32 => out = in)
                        /\ (ByteLen(in) > 32 => ByteLen(out) >= 29)       \* a cut loses at most the rune that straddles the limit

Fields == {"brand", "model", "type", "serial", "id"}
Tails == {<<>>} \cup {<<x>> : x \in Atoms} \cup {<<x, y>> : x \in Atoms, y \in Atoms}
Ks == {0, 3} \cup 27..33
Rows == { [field |-> f, k |-> k, tail |-> t, cats |-> c, auto |-> a] :
             f \in Fields, k \in Ks, t \in Tails, c \in {"nil", "empty", "one", "two"}, a \in BOOLEAN }
\* vary the string for every field with default categories / flag, and the categories / flag with a default string
Valid(r) == \/ (r.cats = "one" /\ r.auto = FALSE)
            \/ (r.field = "brand" /\ r.k = 3 /\ r.tail = <<>>)
====
