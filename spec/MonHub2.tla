---- MODULE MonHub2 ----
(***************************************************************************)
(* Monitor pass over scenarios run on two REAL hubs (harness/cmd/hub2).    *)
(* At quiescence, for a stable scenario (both registered each other, both   *)
(* see each other, nobody shut down):                                       *)
(*  C05  exactly one stream is open, both registries hold a completed        *)
(*       connection, payloads pass in both directions                        *)
(*  C11  the application's last word is 'set up' on both sides               *)
(*  C18  the last pairing-state notification equals PairingDetailForSki      *)
(*  C06  what an application received is an order preserving, duplicate free *)
(*       selection of what the peer wrote                                    *)
(*  C03  both sides completed or neither                                     *)
(*  C10  after Shutdown(h) returned, h opens no stream to its peer; while    *)
(*       either user has not (or no longer) registered the peer, nobody     *)
(*       trusts on his behalf and no connection is completed; nothing is     *)
(*       registered or open at a hub that was shut down                      *)
(***************************************************************************)
EXTENDS Naturals, Sequences, FiniteSets, TLC, Json
CONSTANT ObsFile
Trace == ndJsonDeserialize(ObsFile)
VARIABLE l
Other(h) == IF h = "A" THEN "B" ELSE "A"
RECURSIVE IsSubseq(_, _)
IsSubseq(a, b) == IF a = <<>> THEN TRUE ELSE IF b = <<>> THEN FALSE
                  ELSE IF Head(a) = Head(b) THEN IsSubseq(Tail(a), Tail(b)) ELSE IsSubseq(a, Tail(b))
NoDup(a) == \A i, j \in 1..Len(a) : i # j => a[i] # a[j]
Idx(t) == 1..Len(t.events)
Judge(t) ==
    LET A == t.hubs["A"]
        B == t.hubs["B"]
        good(x) == x.registered /\ x.state = "Complete"
        b1 == IF t.stable /\ ~(good(A) /\ good(B) /\ t.openStreams = 1)
              THEN {<<"C05", "not-one-completed-connection", IF good(A) THEN "A-ok" ELSE "A-" \o A.state, IF good(B) THEN "B-ok" ELSE "B-" \o B.state, t.openStreams>>} ELSE {}
        b2 == IF t.stable /\ good(A) /\ good(B) /\ t.openStreams = 1 /\ ~(A.echoOut /\ B.echoOut)
              THEN {<<"C05", "connection-does-not-carry-payloads">>} ELSE {}
        b3 == {<<"C11", "last-word-not-setup-although-connected", h>> : h \in {h \in {"A", "B"} : t.stable /\ good(t.hubs[h]) /\ t.hubs[h].lastWord # "Setup"}}
        b4 == {<<"C11", "last-word-setup-although-nothing-registered", h>> : h \in {h \in {"A", "B"} : ~t.hubs[h].registered /\ t.hubs[h].lastWord = "Setup"}}
        b5 == {<<"C18", "last-notification-not-current-state", h, t.hubs[h].lastNote, t.hubs[h].detail>> :
                 h \in {h \in {"A", "B"} : t.hubs[h].lastNote # "" /\ t.hubs[h].lastNote # t.hubs[h].detail /\ ~t.shutDown[h]}}
        b6 == {<<"C06", "received-not-an-ordered-duplicate-free-selection-of-sent", h>> :
                 h \in {h \in {"A", "B"} : ~(NoDup(t.hubs[h].received) /\ IsSubseq(t.hubs[h].received, t.sent[Other(h)]))}}
        b7 == IF (good(A) /\ ~B.registered) \/ (good(B) /\ ~A.registered)
              THEN {<<"C03", "one-side-completed-other-side-gone">>} ELSE {}
        \* (an attempt that passed its last check just before Shutdown may still reach the wire: 400 ms of grace; the single
        \*  hub check of C10, MonHub, is exact about this)
        b8 == {<<"C10", "stream-opened-after-shutdown", h>> :
                 h \in {h \in {"A", "B"} : \E i, j \in Idx(t) : i < j /\ t.events[i].ev = "OpShutdownEnd" /\ t.events[i].h = h
                                                              /\ t.events[j].ev = "StreamOpen" /\ t.events[j].h = Other(h)
                                                              /\ t.events[j].t > t.events[i].t + 400}}
        b9 == {<<"C10", "trusted-although-unregistered", h>> : h \in {h \in {"A", "B"} : ~t.userReg[h] /\ ~t.shutDown[h] /\ t.hubs[h].trusted}}
        b10 == IF (~t.userReg["A"] \/ ~t.userReg["B"]) /\ (good(A) \/ good(B))
               THEN {<<"C10", "completed-although-not-registered-by-both-users">>} ELSE {}
        b11 == {<<"C10", "connection-registered-at-a-hub-that-was-shut-down", h>> : h \in {h \in {"A", "B"} : t.shutDown[h] /\ t.hubs[h].registered}}
        b12 == IF (t.shutDown["A"] \/ t.shutDown["B"]) /\ t.openStreams > 0 THEN {<<"C10", "stream-open-although-a-hub-was-shut-down", t.openStreams>>} ELSE {}
        \* b6 and b8 hold at any time; everything else is a statement about a state at rest
    IN  b6 \cup b8 \cup (IF t.settled THEN b1 \cup b2 \cup b3 \cup b4 \cup b5 \cup b7 \cup b9 \cup b10 \cup b11 \cup b12 ELSE {})
Init == l = 0
Next == /\ l < Len(Trace)
        /\ l' = l + 1
        /\ LET t == Trace[l + 1]
           IN  \A k \in Judge(t) : PrintT(<<"MON", ToJson([id |-> t.id, i |-> 0, key |-> k, kf |-> {}])>>)
Spec == Init /\ [][Next]_l
Done == TLCGet("stats").diameter = Len(Trace) + 1
====
