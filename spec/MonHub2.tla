---- MODULE MonHub2 ----
(***************************************************************************)
(* Monitor pass over scenarios run on two REAL hubs (harness/cmd/hub2).    *)
(* At quiescence, for a stable scenario (both registered each other, both   *)
(* see each other, nobody shut down):                                       *)
(*  C05  exactly one stream is open, both registries hold a completed        *)
(*       connection, payloads pass in both directions                        *)
(*  C11  the application's last word is 'set up' on both sides               *)
(*  C18  the last pairing-state notification equals PairingDetailForSki      *)
(*  C06  what an application received is an order preserving, duplicate free *)
(*       selection of what the peer wrote                                    *)
(*  C03  both sides completed or neither                                     *)
(*  C10  after Shutdown(h) returned, h opens no stream to its peer; while    *)
(*       either user has not (or no longer) registered the peer, nobody     *)
(*       trusts on his behalf and no connection is completed; nothing is     *)
(*       registered or open at a hub that was shut down                      *)
(* and, over the history of EVERY ShipConnection the two hubs created        *)
(* (recorded by observing wrappers around its info provider and data writer, *)
(* under the real goroutine schedule), the connection-level formulas of      *)
(* SmeProps - the very operators ShipSme is model checked with:              *)
(*  C04  reported states follow the graph, terminal outcomes are final       *)
(*  C01  no post-hello state / setup / payload unless the hub said paired or *)
(*       auto accept, the connection is the client, or approve was called;   *)
(*       the hub says paired / approves only on the user's word              *)
(*  C06  deliveries only after completion, in arrival order, none missing    *)
(*  C09  setup only with the stored SHIP id, one id report before setup      *)
(*  C11  the end is reported exactly once                                    *)
(***************************************************************************)
EXTENDS Naturals, Sequences, FiniteSets, TLC, Json, SmeProps
CONSTANT ObsFile
Trace == ndJsonDeserialize(ObsFile)
VARIABLE l
Other(h) == IF h = "A" THEN "B" ELSE "A"
RECURSIVE IsSubseq(_, _)
IsSubseq(a, b) == IF a = <<>> THEN TRUE ELSE IF b = <<>> THEN FALSE
                  ELSE IF Head(a) = Head(b) THEN IsSubseq(Tail(a), Tail(b)) ELSE IsSubseq(a, Tail(b))
NoDup(a) == \A i, j \in 1..Len(a) : i # j => a[i] # a[j]
Idx(t) == 1..Len(t.events)

\* ---------------------------------------------------------------- one recorded connection history
LiveKinds == {"rep", "sent", "sentclose", "sentdata", "close", "closed", "setup", "id", "deliver"}
LAcc0(c) == [acc |-> Acc0(c.role, FALSE), lastAcc |-> ""]
\* the presented SHIP id is that of the latest accessMethods frame the connection received
LAct(la) == [a |-> "Inject", m |-> "live", id |-> la.lastAcc]
RECURSIVE LWalk(_, _, _, _)
LWalk(c, i, la, bad) ==
    IF i > Len(c.evs) THEN [la |-> la, bad |-> bad]
    ELSE LET e == c.evs[i] IN
         IF e.k \in LiveKinds
         THEN LET r == OnEvent(c.role, c.stored, LAct(la), la.acc, [k |-> e.k, v |-> e.v], {})
              IN  LWalk(c, i + 1, [la EXCEPT !.acc = r.acc], bad \cup {[i |-> i, key |-> k, par |-> e.par] : k \in r.bad})
         ELSE IF e.k = "q" THEN LWalk(c, i + 1, [la EXCEPT !.acc.trust = @ \/ e.id = "T"], bad)
         ELSE IF e.k = "enter" /\ e.v = "approve" THEN LWalk(c, i + 1, [la EXCEPT !.acc.trust = TRUE], bad)
         ELSE IF e.k = "enter" /\ e.v = "close" THEN LWalk(c, i + 1, [la EXCEPT !.acc.asked = TRUE], bad)
         ELSE IF e.k = "in" /\ e.v = "data" THEN LWalk(c, i + 1, [la EXCEPT !.acc.inj = Append(@, e.id)], bad)
         ELSE IF e.k = "in" /\ e.v = "acc" THEN LWalk(c, i + 1, [la EXCEPT !.lastAcc = e.id], bad)
         ELSE LWalk(c, i + 1, la, bad)
\* at rest: the state of the connection as JudgeStep sees it after real time has passed ("Sleep")
JudgeConn(t, c) ==
    LET w == LWalk(c, 1, LAcc0(c), {})
        lastPar == IF Len(c.evs) = 0 THEN FALSE ELSE c.evs[Len(c.evs)].par
        fin == IF t.settled /\ c.ran
               THEN JudgeStep(c.role, c.stored, [a |-> "Sleep", m |-> "", id |-> ""], w.la.acc,
                              [st |-> c.st, tRun |-> c.tRun, wsOpen |-> c.wsOpen, buf |-> c.buf, ev |-> <<>>, panicked |-> FALSE, hung |-> FALSE]).bad
               ELSE {}
    IN  w.bad \cup {[i |-> Len(c.evs), key |-> k, par |-> lastPar] : k \in fin}

\* ---------------------------------------------------------------- the hub's answers and the user's word (C01, hub level)
Ev(t, i, name, h) == t.events[i].ev = name /\ t.events[i].h = h
\* the user's word for the peer was 'register' at some moment before event j: a Register started before j that no completed
\* Unregister / Cancel / restart of the hub followed (interval semantics: a call in progress counts for both answers)
RegisteredBefore(t, h, j) ==
    \E i \in Idx(t) : i < j /\ Ev(t, i, "OpRegister", h)
                       /\ ~\E k \in Idx(t) : i < k /\ k < j /\ (Ev(t, k, "OpUnregisterEnd", h) \/ Ev(t, k, "OpCancelEnd", h) \/ Ev(t, k, "OpRestart", h))
AutoBefore(t, h, j) ==
    \E i \in Idx(t) : i < j /\ Ev(t, i, "OpAutoOn", h) /\ ~\E k \in Idx(t) : i < k /\ k < j /\ Ev(t, k, "OpRestart", h)
AutoOnAt(t, h, j) ==
    \E i \in Idx(t) : i < j /\ Ev(t, i, "OpAutoOn", h)
                       /\ ~\E k \in Idx(t) : i < k /\ k < j /\ (Ev(t, k, "OpAutoOffEnd", h) \/ Ev(t, k, "OpRestart", h))
HubTrust(t) ==
    {<<"C01", "hub-says-paired-without-the-users-word", t.events[j].h>> :
        j \in {j \in Idx(t) : t.events[j].ev = "c.q" /\ t.events[j].v = "paired" /\ t.events[j].id = "T"
                              /\ ~RegisteredBefore(t, t.events[j].h, j) /\ ~AutoBefore(t, t.events[j].h, j)}}
    \cup {<<"C01", "hub-says-auto-accept-although-off", t.events[j].h>> :
        j \in {j \in Idx(t) : t.events[j].ev = "c.q" /\ t.events[j].v = "auto" /\ t.events[j].id = "T" /\ ~AutoOnAt(t, t.events[j].h, j)}}
    \cup {<<"C01", "pending-request-approved-without-the-users-word", t.events[j].h>> :
        j \in {j \in Idx(t) : t.events[j].ev = "c.enter" /\ t.events[j].v = "approve" /\ ~RegisteredBefore(t, t.events[j].h, j)}}
    \cup {<<"C01", "device-set-up-at-a-hub-that-never-trusted", t.events[j].h>> :
        j \in {j \in Idx(t) : t.events[j].ev = "Setup" /\ ~(\E i \in Idx(t) : i < j /\ (Ev(t, i, "OpRegister", t.events[j].h) \/ Ev(t, i, "OpAutoOn", t.events[j].h)))}}
    \* ... nor after the user took his word back (an Unregister / Cancel that had returned) without giving it again
    \cup {<<"C01", "device-set-up-after-the-user-took-his-word-back", t.events[j].h>> :
        j \in {j \in Idx(t) : t.events[j].ev = "Setup" /\ ~RegisteredBefore(t, t.events[j].h, j) /\ ~AutoBefore(t, t.events[j].h, j)
                              /\ \E i \in Idx(t) : i < j /\ (Ev(t, i, "OpUnregisterEnd", t.events[j].h) \/ Ev(t, i, "OpCancelEnd", t.events[j].h))}}
Judge(t) ==
    LET A == t.hubs["A"]
        B == t.hubs["B"]
        good(x) == x.registered /\ x.state = "Complete"
        b1 == IF t.stable /\ ~(good(A) /\ good(B) /\ t.openStreams = 1)
              THEN {<<"C05", "not-one-completed-connection", IF good(A) THEN "A-ok" ELSE "A-" \o A.state, IF good(B) THEN "B-ok" ELSE "B-" \o B.state, t.openStreams>>} ELSE {}
        b2 == IF t.stable /\ good(A) /\ good(B) /\ t.openStreams = 1 /\ ~(A.echoOut /\ B.echoOut)
              THEN {<<"C05", "connection-does-not-carry-payloads">>} ELSE {}
        b3 == {<<"C11", "last-word-not-setup-although-connected", h>> : h \in {h \in {"A", "B"} : t.stable /\ good(t.hubs[h]) /\ t.hubs[h].lastWord # "Setup"}}
        b4 == {<<"C11", "last-word-setup-although-nothing-registered", h>> : h \in {h \in {"A", "B"} : ~t.hubs[h].registered /\ t.hubs[h].lastWord = "Setup"}}
        b5 == {<<"C18", "last-notification-not-current-state", h, t.hubs[h].lastNote, t.hubs[h].detail>> :
                 h \in {h \in {"A", "B"} : t.hubs[h].lastNote # "" /\ t.hubs[h].lastNote # t.hubs[h].detail /\ ~t.shutDown[h]}}
        b6 == {<<"C06", "received-not-an-ordered-duplicate-free-selection-of-sent", h>> :
                 h \in {h \in {"A", "B"} : ~(NoDup(t.hubs[h].received) /\ IsSubseq(t.hubs[h].received, t.sent[Other(h)]))}}
        b7 == IF (good(A) /\ ~B.registered) \/ (good(B) /\ ~A.registered)
              THEN {<<"C03", "one-side-completed-other-side-gone">>} ELSE {}
        \* (an attempt that passed its last check just before Shutdown may still reach the wire: 400 ms of grace; the single
        \*  hub check of C10, MonHub, is exact about this)
        b8 == {<<"C10", "stream-opened-after-shutdown", h>> :
                 h \in {h \in {"A", "B"} : \E i, j \in Idx(t) : i < j /\ t.events[i].ev = "OpShutdownEnd" /\ t.events[i].h = h
                                                              /\ t.events[j].ev = "StreamOpen" /\ t.events[j].h = Other(h)
                                                              /\ t.events[j].t > t.events[i].t + 400}}
        \* (trust a hub gained by accepting a connection while auto accept was on is the user's word as well)
        word(h) == t.userReg[h] \/ AutoBefore(t, h, Len(t.events) + 1)
        b9 == {<<"C10", "trusted-although-unregistered", h>> : h \in {h \in {"A", "B"} : ~word(h) /\ ~t.shutDown[h] /\ t.hubs[h].trusted}}
        b10 == IF (~word("A") \/ ~word("B")) /\ (good(A) \/ good(B))
               THEN {<<"C10", "completed-although-not-registered-by-both-users">>} ELSE {}
        b11 == {<<"C10", "connection-registered-at-a-hub-that-was-shut-down", h>> : h \in {h \in {"A", "B"} : t.shutDown[h] /\ t.hubs[h].registered}}
        b12 == IF (t.shutDown["A"] \/ t.shutDown["B"]) /\ t.openStreams > 0 THEN {<<"C10", "stream-open-although-a-hub-was-shut-down", t.openStreams>>} ELSE {}
        \* b6 and b8 hold at any time; everything else is a statement about a state at rest
        \* C09 on two hubs: no device is ever set up at a hub whose application stored another SHIP id for the peer
        b13 == {<<"C09", "device-set-up-although-the-stored-ship-id-differs", h>> :
                  h \in {h \in {"A", "B"} : t.script.ids[h] = "wrong" /\ t.hubs[h].setups > 0}}
        \* "after a SKI is unregistered its connection is closed": at rest no connection a hub dialled is still open while its user
        \* has (no longer) a word for the peer - also not one whose dial was under way when the user took his word back
        b14 == {<<"C10", "dialled-connection-open-although-the-user-has-no-word-for-the-peer", h>> :
                  h \in {h \in {"A", "B"} : ~word(h) /\ ~t.shutDown[h]
                                            /\ \E n \in 1..Len(t.conns) : t.conns[n].h = h /\ t.conns[n].role = "client" /\ t.conns[n].wsOpen}}
        \* a dial that was under way when the user took his word back does not become a connection: no connection handler is
        \* created for a dialled transport after Unregister / CancelPairing returned (and no Register was called since)
        b15 == {<<"C10", "dial-became-a-connection-after-the-user-took-his-word-back", t.events[j].h>> :
                  j \in {j \in Idx(t) : t.events[j].ev = "c.new" /\ t.events[j].v = "client"
                                        /\ ~RegisteredBefore(t, t.events[j].h, j) /\ ~AutoBefore(t, t.events[j].h, j)}}
    IN  b6 \cup b8 \cup b13 \cup b15 \cup HubTrust(t) \cup (IF t.stuck THEN b1 ELSE {}) \cup (IF t.settled THEN b1 \cup b2 \cup b3 \cup b4 \cup b5 \cup b7 \cup b9 \cup b10 \cup b11 \cup b12 \cup b14 ELSE {})
\* known finding C11/setup-after-the-end-was-reported: a close from another goroutine (Shutdown, Unregister, ...) that falls
\* between the completing handler's decision and its SetupRemoteDevice call - the connection's own history shows the closed
\* report BEFORE the set-up
SetupAfterClosed(t, h) ==
    \E n \in 1..Len(t.conns) : /\ t.conns[n].h = h
                               /\ \E i, j \in 1..Len(t.conns[n].evs) : i < j /\ t.conns[n].evs[i].k = "closed" /\ t.conns[n].evs[j].k = "setup"
\* (the same history has a C01 face when the close came from the user taking his word back: the set-up follows the Cancel)
KfSetup(t, k) == IF /\ \/ (k[1] = "C11" /\ k[2] = "last-word-setup-although-nothing-registered")
                       \/ (k[1] = "C01" /\ k[2] = "device-set-up-after-the-user-took-his-word-back")
                    /\ SetupAfterClosed(t, k[3])
                 THEN {"setup-after-closed"} ELSE {}
\* known finding hello-ok-reported-after-the-end: UnregisterRemoteSKI / CancelPairingWithSKI close the connection while its
\* handler sits just before the hello-ok report; the hub hears "hello ok" from a connection it no longer holds and marks
\* the peer trusted again - after the user took his word back.  In the connection's own history hello-ok is the state it
\* reported last before its closed report (the report was on its way to the hub when the close came) or it comes after the
\* closed report; what follows from the regained trust (a new dial, a completed connection) carries the tag
HelloOkAfterClosed(t, h) ==
    \E n \in 1..Len(t.conns) :
        /\ t.conns[n].h = h
        /\ LET ev == t.conns[n].evs IN
           \E i, j \in 1..Len(ev) : /\ ev[i].k = "closed" /\ ev[j].k = "rep" /\ ev[j].v = "HelloOk"
                                    /\ (j > i \/ ~\E m \in 1..Len(ev) : j < m /\ m < i /\ ev[m].k = "rep")
KfHello(t, k) ==
    LET trustKeys == {<<"C10", "trusted-although-unregistered">>, <<"C10", "dial-became-a-connection-after-the-user-took-his-word-back">>,
                      <<"C10", "dialled-connection-open-although-the-user-has-no-word-for-the-peer">>,
                      <<"C01", "hub-says-paired-without-the-users-word">>, <<"C01", "device-set-up-after-the-user-took-his-word-back">>}
    IN  IF (<<k[1], k[2]>> \in trustKeys /\ HelloOkAfterClosed(t, k[3]))
           \/ (k[1] = "C10" /\ k[2] = "completed-although-not-registered-by-both-users" /\ \E h \in {"A", "B"} : HelloOkAfterClosed(t, h))
        THEN {"hellook-after-closed"} ELSE {}
KfOf(t, k) == KfSetup(t, k) \cup KfHello(t, k)
Init == l = 0
Next == /\ l < Len(Trace)
        /\ l' = l + 1
        /\ LET t == Trace[l + 1]
           IN  /\ \A k \in Judge(t) : PrintT(<<"MON", ToJson([id |-> t.id, i |-> 0, key |-> k, kf |-> KfOf(t, k)])>>)
               /\ \A n \in 1..Len(t.conns) : \A b \in JudgeConn(t, t.conns[n]) :
                      PrintT(<<"MON", ToJson([id |-> t.id, i |-> b.i, conn |-> t.conns[n].c, key |-> b.key, kf |-> IF b.par THEN {"par"} ELSE {}])>>)
Spec == Init /\ [][Next]_l
Done == TLCGet("stats").diameter = Len(Trace) + 1
====
