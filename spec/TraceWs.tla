---- MODULE TraceWs ----
(***************************************************************************)
(* Conformance pass (mechanism B): is every recorded history of the REAL   *)
(* ws.WebsocketConnection explainable by WsConn.tla?  Logged events are      *)
(* bound to WsConn's actions; pump, lock and check steps are silent.  A call *)
(* return is an OBSERVATION of an earlier silent step (the writer's result   *)
(* list and a seen-counter), because the log line is written after the call  *)
(* returned.  Histories are batched: TraceReset starts the next one.  The    *)
(* batch is accepted iff the state "all histories consumed" is reachable -   *)
(* checked as a violated invariant (NotAccepted), depth-first queue.         *)
(***************************************************************************)
EXTENDS WsConn, Json
CONSTANT TraceFile
Traces == ndJsonDeserialize(TraceFile)
VARIABLES tr, l, called, pr, closing, seen, repSeen, dSeen
tvars == <<tr, l, called, pr, closing, seen, repSeen, dSeen>>
allvars == <<vars, tvars>>

TInit == Init /\ tr = 1 /\ l = 1 /\ called = [w \in Writers |-> FALSE] /\ pr = 0 /\ closing = "no" /\ seen = [w \in Writers |-> 0]
         /\ repSeen = 0 /\ dSeen = 0

Cur == Traces[tr].events
Ev == Cur[l]
IsEv(name) == tr <= Len(Traces) /\ l <= Len(Cur) /\ Ev.ev = name /\ l' = l + 1 /\ tr' = tr

EWriteStart == /\ IsEv("WriteStart") /\ ~called[Ev.w] /\ wpc[Ev.w] = "idle" /\ wleft[Ev.w] = Ev.n /\ Len(wres[Ev.w]) = seen[Ev.w]
               /\ called' = [called EXCEPT ![Ev.w] = TRUE] /\ UNCHANGED <<vars, pr, closing, seen, repSeen, dSeen>>
EWriteEnd == /\ IsEv("WriteEnd") /\ called[Ev.w]
             /\ LET w == Ev.w IN
                \/ (Ev.res = "panic" /\ w \in panicked)
                \/ (Ev.res \in {"ok", "err"} /\ Len(wres[w]) > seen[w] /\ wres[w][seen[w] + 1] = Ev.res /\ wpc[w] = "idle")
             /\ seen' = [seen EXCEPT ![Ev.w] = IF Ev.res = "panic" THEN @ ELSE @ + 1]
             /\ called' = [called EXCEPT ![Ev.w] = FALSE] /\ UNCHANGED <<vars, pr, closing, repSeen, dSeen>>
EPeerRecv == /\ IsEv("PeerRecv") /\ pr < Len(toPeer) /\ toPeer[pr + 1] = <<Ev.w, Ev.n>>
             /\ pr' = pr + 1 /\ UNCHANGED <<vars, called, closing, seen, repSeen, dSeen>>
ECloseStart == IsEv("CloseStart") /\ closing = "no" /\ closing' = (IF Ev.n = 1 THEN "reason" ELSE "plain") /\ UNCHANGED <<vars, called, pr, seen, repSeen, dSeen>>
ECloseEnd == IsEv("CloseEnd") /\ closerDone /\ cpc \in {"idle", "done"} /\ UNCHANGED <<vars, called, pr, closing, seen, repSeen, dSeen>>
\* callbacks into the SHIP layer are observations of earlier silent steps as well: the real code marks the connection
\* closed, and only then calls ReportConnectionError
EReportError == /\ IsEv("ReportError") /\ repSeen < reports /\ repSeen' = repSeen + 1
                /\ UNCHANGED <<vars, called, pr, closing, seen, dSeen>>
EPeerEof == IsEv("PeerEof") /\ PeerEof /\ UNCHANGED <<called, pr, closing, seen, repSeen, dSeen>>
EDeliverIn == /\ IsEv("DeliverIn") /\ dSeen < Len(delivered) /\ dSeen' = dSeen + 1
              /\ UNCHANGED <<vars, called, pr, closing, seen, repSeen>>

\* silent library steps (no event is logged for them)
Silent == /\ UNCHANGED tvars
          /\ tr <= Len(Traces)
          /\ \/ \E w \in Writers : (called[w] /\ Len(wres[w]) = seen[w] /\ WLock(w)) \/ WCheck(w) \/ WSend(w)
             \/ PSelectClose \/ PSelectMsg \/ PWrite \/ PWrite2 \/ PExit
             \/ RTop \/ RRead \/ RGot \/ RDeliver
             \/ (closing = "plain" /\ LocalClose)
             \/ (closing = "reason" /\ (CReasonFrame \/ CReasonMark))
             \/ CReasonClose \/ CReasonSend \/ PeerReacts
             \/ ShipReacts

\* next history: everything consumed, no call left open
TraceReset == /\ tr <= Len(Traces) /\ l = Len(Cur) + 1 /\ \A w \in Writers : ~called[w]
              /\ repSeen = reports /\ repSeen' = 0 /\ dSeen' = 0
              /\ tr' = tr + 1 /\ l' = 1 /\ called' = [w \in Writers |-> FALSE] /\ pr' = 0 /\ closing' = "no"
              /\ seen' = [w \in Writers |-> 0]
              /\ closed' = FALSE /\ closedErr' = FALSE /\ closeChan' = FALSE /\ wchan' = <<>> /\ wchanClosed' = FALSE
              /\ once' = FALSE /\ connClosed' = FALSE /\ mux' = 0
              /\ wpc' = [w \in Writers |-> "idle"] /\ wleft' = [w \in Writers |-> MsgsPerWriter] /\ wres' = [w \in Writers |-> <<>>]
              /\ ppc' = "select" /\ pmsg' = <<>> /\ rpc' = "top" /\ rframe' = "none"
              /\ toPeer' = <<>> /\ fromPeer' = InitFrames /\ eof' = FALSE /\ failNext' = FALSE /\ blocked' = FALSE
              /\ reports' = 0 /\ panicked' = {} /\ delivered' = <<>> /\ closerDone' = FALSE /\ faults' = 0
              /\ accepted' = <<>> /\ lateDeliver' = 0 /\ nblock' = 0 /\ cpc' = "idle" /\ peerClosing' = FALSE

TNext == EWriteStart \/ EWriteEnd \/ EPeerRecv \/ ECloseStart \/ ECloseEnd \/ EReportError \/ EDeliverIn \/ EPeerEof \/ Silent \/ TraceReset
TSpec == TInit /\ [][TNext]_allvars
\* violated  <=>  every history of the batch was consumed  <=>  all of them are explainable
NotAccepted == tr <= Len(Traces)
\* progress indicator for rejected batches: the furthest history reached
Progress == TLCSet(1, IF TLCGet(1) < tr THEN tr ELSE TLCGet(1))
====
