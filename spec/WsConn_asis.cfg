SPECIFICATION Spec
CONSTANTS Writers = {1, 2}
 MsgsPerWriter = 2
 Defects = {"chanClose", "writeErrLeak", "closeReported", "frameBeforeMark"}
 InitFrames <- OneFrame
 MaxFaults = 1
 AllowBlock = TRUE
INVARIANT P_C12_NoPanic
INVARIANT P_C12_Prefix
INVARIANT P_C13_QuietLocalClose
INVARIANT P_C13_Reported
INVARIANT P_C13_NoLateDelivery
PROPERTY L_C13_Released
PROPERTY L_C12_Returns
CHECK_DEADLOCK FALSE
