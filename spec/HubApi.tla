---- MODULE HubApi ----
(***************************************************************************)
(* The hub's API as a sequential machine over injected connection objects  *)
(* (hub/hub.go, hub_pairing.go, hub_shipconnection.go, hub_mdns.go,         *)
(* hub_connections.go; DESIGN.md Appendix C).  One action per public method *)
(* of api.HubInterface, per callback of the connection info provider and    *)
(* per mDNS report; dial attempts are what the delayed goroutines of        *)
(* coordinateConnectionInitations do once they run (the harness scales the  *)
(* random back-off to zero and waits for them).                             *)
(*                                                                          *)
(* The specification is defined on SKI IDENTITIES: the spelling a user      *)
(* operation is called with is a parameter that no action looks at - that   *)
(* is C15.  Defects = behaviours of the unchanged tree still present.       *)
(* Decides C15, and the hub-level parts of C10, C11, C18.                   *)
(***************************************************************************)
EXTENDS Integers, Sequences, FiniteSets, SequencesExt, TLC, Json

CONSTANTS Skis, MaxConns, Defects, GenMode, EmitMode, SimDepth, MaxOps,
          Spellings    \* "canon" and re-spellings; no action looks at the spelling (the harness picks a concrete one)
DefectNames == {"rawSki",            \* hub_pairing.go: unregister / disconnect / cancel / detail look the connection up by the raw string
                "staleDisconnect",   \* hub_shipconnection.go: RemoteSKIDisconnected also for a connection that is not the registered one
                "dialAfterShutdown", \* hub.go: Shutdown sets no flag, a later mDNS report still leads to a dial
                "cancelLeavesConnection", \* hub_pairing.go: CancelPairingWithSKI only asks the connection to abort; one that is past its hello phase
                                     \* goes on and completes (or stays completed) although the pairing was cancelled
                "staleStateUpdate"}  \* hub_shipconnection.go: a state reported by a connection that is not the registered one overwrites the pairing detail
ASSUME Defects \subseteq DefectNames
Has(d) == d \in Defects

ShipStates == {"InitStart", "ServerWait", "ReadyListen", "PendingListen", "HelloOk", "PinCheckListen", "Complete", "Error", "AbortDone", "RemoteAbortDone"}
Map(s) == CASE s = "InitStart" -> "Queued" [] s = "ServerWait" -> "Initiated" [] s = "ReadyListen" -> "InProgress"
            [] s = "PendingListen" -> "ReceivedPairingRequest" [] s = "HelloOk" -> "Trusted" [] s = "PinCheckListen" -> "Pin"
            [] s = "Complete" -> "Completed" [] s = "Error" -> "Error" [] s = "AbortDone" -> "None" [] s = "RemoteAbortDone" -> "RemoteDeniedTrust"

VARIABLES started, shut, auto, svc, conns, nops, out, lastAct, hist
vars == <<started, shut, auto, svc, conns, nops, out, lastAct, hist>>
\* svc[k] = [trusted, dstate, derr, reg, cnt, intent]      reg: index into conns or 0;  cnt: attempt counter, -1 = none
\* conns[i] = [ski, st, err, setup, ended]

Svc0 == [trusted |-> FALSE, dstate |-> "None", derr |-> FALSE, reg |-> 0, cnt |-> -1, intent |-> FALSE]
Init == /\ started = FALSE /\ shut = FALSE /\ auto = FALSE
        /\ svc = [k \in Skis |-> Svc0]
        /\ conns = <<>> /\ nops = 0 /\ out = <<>> /\ lastAct = [a |-> "init"] /\ hist = <<>>

NumTrusted(s) == Cardinality({k \in Skis : s[k].trusted})
NumConns(s)   == Cardinality({k \in Skis : s[k].reg # 0})
\* checkAutoReannounce
Reann(s) == IF NumTrusted(s) > NumConns(s) THEN <<"mdns.Announce", "mdns.Request">> ELSE <<>>
\* the four entry points that used the raw string: with the defect a non-canonical spelling finds no connection
Found(k, sp) == IF Has("rawSki") /\ sp # "canon" THEN 0 ELSE svc[k].reg
RawHit(sp)   == ~(Has("rawSki") /\ sp # "canon")
CallOn(i, c) == "conn" \o ToString(i) \o "." \o c
Can == nops < MaxOps
Bump == nops' = nops + 1

Start == /\ ~started /\ ~shut /\ Can /\ Bump /\ started' = TRUE /\ out' = <<"mdns.Start">>
         /\ UNCHANGED <<shut, auto, svc, conns>>

Shutdown == /\ ~shut /\ Can /\ Bump /\ shut' = TRUE
            /\ out' = <<"mdns.Shutdown">> \o SetToSeq({CallOn(svc[k].reg, "Close:unsafe:0") : k \in {k2 \in Skis : svc[k2].reg # 0}})
            /\ UNCHANGED <<started, auto, svc, conns>>

Register(k, sp) ==
    /\ Can /\ Bump /\ ~shut
    /\ IF ~started
       THEN LET s2 == [svc EXCEPT ![k].trusted = TRUE, ![k].intent = TRUE]
            IN  svc' = s2 /\ out' = Reann(s2)
       ELSE IF svc[k].reg # 0
            THEN svc' = [svc EXCEPT ![k].trusted = TRUE, ![k].intent = TRUE] /\ out' = <<CallOn(svc[k].reg, "Approve")>>
            ELSE /\ svc' = [svc EXCEPT ![k].trusted = TRUE, ![k].intent = TRUE, ![k].dstate = "Queued"]
                 /\ out' = <<"note:" \o k \o ":Queued", "mdns.Request">>
    /\ UNCHANGED <<started, shut, auto, conns>>

Unregister(k, sp) ==
    /\ Can /\ Bump /\ ~shut
    /\ svc' = [svc EXCEPT ![k].trusted = FALSE, ![k].intent = FALSE, ![k].dstate = "None",
                          ![k].cnt = IF RawHit(sp) THEN -1 ELSE @]
    /\ out' = <<"note:" \o k \o ":None">> \o (IF Found(k, sp) # 0 THEN <<CallOn(Found(k, sp), "Close:safe:4500")>> ELSE <<>>)
    /\ UNCHANGED <<started, shut, auto, conns>>

Disconnect(k, sp) ==
    /\ Can /\ Bump /\ ~shut
    /\ out' = (IF Found(k, sp) # 0 THEN <<CallOn(Found(k, sp), "Close:safe:0")>> ELSE <<>>)
    /\ UNCHANGED <<started, shut, auto, svc, conns>>

Cancel(k, sp) ==
    /\ Can /\ Bump /\ ~shut
    /\ svc' = [svc EXCEPT ![k].trusted = FALSE, ![k].intent = FALSE, ![k].dstate = "None",
                          ![k].cnt = IF RawHit(sp) THEN -1 ELSE @]
    \* the connection is asked to abort; unless it is (then) in an aborted / failed state it is ended like Unregister does
    /\ out' = (IF Found(k, sp) # 0
               THEN <<CallOn(Found(k, sp), "Abort")>>
                    \o (IF Has("cancelLeavesConnection") \/ conns[Found(k, sp)].st \in {"AbortDone", "RemoteAbortDone", "Error"}
                        THEN <<>> ELSE <<CallOn(Found(k, sp), "Close:safe:4500")>>)
               ELSE <<>>) \o <<"note:" \o k \o ":None">>
    /\ UNCHANGED <<started, shut, auto, conns>>

\* PairingDetailForSki and ServiceForSKI(..).Trusted(): queries
Detail(k, sp) ==
    /\ Can /\ Bump
    /\ LET f == Found(k, sp) IN
       out' = <<"ret:" \o (IF f # 0 THEN Map(conns[f].st) \o (IF conns[f].err THEN "!" ELSE "") ELSE svc[k].dstate \o (IF svc[k].derr THEN "!" ELSE ""))
                       \o ":" \o (IF svc[k].trusted THEN "T" ELSE "F")>>
    /\ UNCHANGED <<started, shut, auto, svc, conns>>

SetAuto(b) == /\ Can /\ Bump /\ auto # b /\ auto' = b /\ out' = <<"mdns.SetAutoAccept">>
              /\ UNCHANGED <<started, shut, svc, conns>>

\* a new connection object is registered (what ServeHTTP / connectFoundService do at their end); it replaces the entry
NewConn(k, s) ==
    /\ started /\ Can /\ Bump /\ Len(conns) < MaxConns
    /\ conns' = Append(conns, [ski |-> k, st |-> s, err |-> FALSE, setup |-> FALSE, ended |-> FALSE])
    /\ svc' = [svc EXCEPT ![k].reg = Len(conns) + 1] /\ out' = <<>>
    /\ UNCHANGED <<started, shut, auto>>

\* HandleShipHandshakeStateUpdate from connection i
StateUpdate(i, s, e) ==
    /\ Can /\ Bump /\ i \in 1..Len(conns) /\ ~conns[i].ended
    /\ LET k == conns[i].ski
           m == IF e THEN "Error" ELSE Map(s)
           t == svc[k].trusted \/ s = "HelloOk"
           \* another connection is registered and it is in a different state: the update is ignored (since the repair)
           stale == ~Has("staleStateUpdate") /\ svc[k].reg # 0 /\ svc[k].reg # i /\ conns[svc[k].reg].st # s
       IN  /\ conns' = [conns EXCEPT ![i].st = s, ![i].err = e]
           /\ IF stale THEN svc' = svc /\ out' = <<>>
              ELSE IF svc[k].dstate # m \/ svc[k].derr # e
              THEN /\ svc' = [svc EXCEPT ![k].trusted = t, ![k].intent = @ \/ s = "HelloOk", ![k].dstate = m, ![k].derr = e]
                   /\ out' = <<"latenote:" \o k \o ":" \o m>>
              ELSE /\ svc' = [svc EXCEPT ![k].trusted = t, ![k].intent = @ \/ s = "HelloOk"] /\ out' = <<>>
    /\ UNCHANGED <<started, shut, auto>>

\* the connection learned the peer's SHIP id, then sets the remote device up (info provider callbacks, passed through)
ShipId(i) == /\ Can /\ Bump /\ i \in 1..Len(conns) /\ ~conns[i].ended /\ ~conns[i].setup
             /\ out' = <<"Connected:" \o conns[i].ski, "ShipID:" \o conns[i].ski>>
             /\ UNCHANGED <<started, shut, auto, svc, conns>>
Setup(i) == /\ Can /\ Bump /\ i \in 1..Len(conns) /\ ~conns[i].ended /\ ~conns[i].setup
            /\ conns' = [conns EXCEPT ![i].setup = TRUE]
            /\ out' = <<"Setup:" \o conns[i].ski>>
            /\ UNCHANGED <<started, shut, auto, svc>>

\* HandleConnectionClosed(conn i, completed): each connection object reports its end once (C11, connection level)
Closed(i, completed) ==
    /\ Can /\ Bump /\ i \in 1..Len(conns) /\ ~conns[i].ended
    /\ LET k  == conns[i].ski
           rg == IF svc[k].reg = i THEN 0 ELSE svc[k].reg
           s2 == [svc EXCEPT ![k].reg = rg, ![k].cnt = IF svc[k].reg # 0 /\ completed THEN -1 ELSE @]
           notify == Has("staleDisconnect") \/ svc[k].reg = i \/ svc[k].reg = 0
       IN  /\ svc' = s2
           /\ conns' = [conns EXCEPT ![i].ended = TRUE]
           /\ out' = (IF notify THEN <<"Disconnected:" \o k>> ELSE <<>>)
                     \o (IF ~completed /\ ~svc[k].trusted THEN <<>> ELSE Reann(s2))
    /\ UNCHANGED <<started, shut, auto>>

\* The same, while another goroutine registers a NEW connection for that service (an inbound request, or a dial that has just
\* succeeded) at the moment the application is inside the disconnect notification.  The registry entry of the ended
\* connection is dropped BEFORE the application is told, so the new entry stays (C11: "never drops the registry entry of a
\* newer connection"); checkAutoReannounce runs afterwards and counts the new connection.
ClosedRe(i, completed) ==
    /\ Can /\ Bump /\ started /\ i \in 1..Len(conns) /\ ~conns[i].ended /\ Len(conns) < MaxConns
    /\ LET k  == conns[i].ski
           n  == Len(conns) + 1
           s2 == [svc EXCEPT ![k].reg = n, ![k].cnt = IF svc[k].reg # 0 /\ completed THEN -1 ELSE @]
           notify == Has("staleDisconnect") \/ svc[k].reg = i \/ svc[k].reg = 0
       IN  /\ notify                 \* without a notification there is no moment at which it could happen
           /\ svc' = s2
           /\ conns' = Append([conns EXCEPT ![i].ended = TRUE], [ski |-> k, st |-> "ServerWait", err |-> FALSE, setup |-> FALSE, ended |-> FALSE])
           /\ out' = <<"Disconnected:" \o k>> \o (IF ~completed /\ ~svc[k].trusted THEN <<>> ELSE Reann(s2))
    /\ UNCHANGED <<started, shut, auto>>

\* ReportMdnsEntries(vis): every visible SKI that is not connected and is trusted or queued gets one dial attempt; the
\* harness' listeners refuse it, so the attempt ends in checkAutoReannounce
Eligible(k) == svc[k].reg = 0 /\ (svc[k].trusted \/ svc[k].dstate = "Queued")
\* ra: what the visible services announce about THEIR auto accept (TXT register=true) - information for the user interface,
\* which gives nobody trust on this side
ReportMdns(vis, ra) ==
    /\ Can /\ Bump /\ started
    /\ LET dial == IF shut /\ ~Has("dialAfterShutdown") THEN {} ELSE {k \in vis : Eligible(k)}
           s2   == [k \in Skis |-> IF k \in dial THEN [svc[k] EXCEPT !.cnt = IF @ >= 1 THEN 2 ELSE @ + 1] ELSE svc[k]]
       IN  /\ svc' = s2
           /\ out' = <<"Visible:" \o ToString(Cardinality(vis))>>
                     \o SetToSeq({"dial:" \o k : k \in dial})
                     \o (IF NumTrusted(s2) > NumConns(s2)      \* every refused attempt ends in checkAutoReannounce
                         THEN FlattenSeq([j \in 1..Cardinality(dial) |-> <<"mdns.Announce", "mdns.Request">>]) ELSE <<>>)
    /\ UNCHANGED <<started, shut, auto, conns>>

L(r) == lastAct' = r
\* what the hub's connections do (and Start): the part of the alphabet that stores pairing details from below
ActConn ==
       \/ (Start /\ L([a |-> "Start"]))
       \/ \E k \in Skis, s \in {"ServerWait", "PendingListen", "InitStart"} : (NewConn(k, s) /\ L([a |-> "NewConn", k |-> k, s |-> s]))
       \/ \E i \in 1..Len(conns) :
             \/ \E s \in ShipStates \ {"Error", "InitStart"} : (StateUpdate(i, s, FALSE) /\ L([a |-> "StateUpdate", i |-> i, s |-> s, e |-> FALSE]))
             \/ (StateUpdate(i, "Error", TRUE) /\ L([a |-> "StateUpdate", i |-> i, s |-> "Error", e |-> TRUE]))
             \/ (ShipId(i) /\ L([a |-> "ShipId", i |-> i]))
             \/ (Setup(i) /\ L([a |-> "Setup", i |-> i]))
Act == \/ (Start /\ L([a |-> "Start"])) \/ (Shutdown /\ L([a |-> "Shutdown"]))
       \/ \E b \in BOOLEAN : (SetAuto(b) /\ L([a |-> "SetAuto", b |-> b]))
       \/ \E k \in Skis, sp \in Spellings :
             \/ (Register(k, sp) /\ L([a |-> "Register", k |-> k, sp |-> sp]))
             \/ (Unregister(k, sp) /\ L([a |-> "Unregister", k |-> k, sp |-> sp]))
             \/ (Disconnect(k, sp) /\ L([a |-> "Disconnect", k |-> k, sp |-> sp]))
             \/ (Cancel(k, sp) /\ L([a |-> "Cancel", k |-> k, sp |-> sp]))
             \/ (Detail(k, sp) /\ L([a |-> "Detail", k |-> k, sp |-> sp]))
       \/ \E k \in Skis, s \in {"ServerWait", "PendingListen", "InitStart"} : (NewConn(k, s) /\ L([a |-> "NewConn", k |-> k, s |-> s]))
       \/ \E i \in 1..Len(conns) :          \* (a connection never reports its initial state InitStart)
             \/ \E s \in ShipStates \ {"Error", "InitStart"} : (StateUpdate(i, s, FALSE) /\ L([a |-> "StateUpdate", i |-> i, s |-> s, e |-> FALSE]))
             \/ (StateUpdate(i, "Error", TRUE) /\ L([a |-> "StateUpdate", i |-> i, s |-> "Error", e |-> TRUE]))
             \/ (ShipId(i) /\ L([a |-> "ShipId", i |-> i]))
             \/ (Setup(i) /\ L([a |-> "Setup", i |-> i]))
             \/ \E c \in BOOLEAN : (Closed(i, c) /\ L([a |-> "Closed", i |-> i, c |-> c]))
             \/ \E c \in BOOLEAN : (ClosedRe(i, c) /\ L([a |-> "ClosedRe", i |-> i, c |-> c, k |-> conns[i].ski, s |-> "ServerWait"]))
       \/ \E vis \in SUBSET Skis, ra \in BOOLEAN : (ReportMdns(vis, ra) /\ L([a |-> "ReportMdns", vis |-> vis, ra |-> ra]))

\* projection the harness compares after every step
Proj == [ started |-> started', shut |-> shut', auto |-> auto',
          svc |-> [k \in Skis |-> [trusted |-> svc'[k].trusted, paired |-> svc'[k].trusted, dstate |-> svc'[k].dstate, derr |-> svc'[k].derr,
                                   reg |-> svc'[k].reg, cnt |-> svc'[k].cnt]],
          out |-> out' ]
\* GenMode "conns": behaviours of connection events only (several services reporting states side by side, no user operation)
Next == /\ (IF GenMode = "conns" THEN ActConn ELSE Act)
        /\ hist' = IF EmitMode = "none" THEN hist ELSE Append(hist, [a |-> lastAct', x |-> Proj])
Spec == Init /\ [][Next]_vars

EmitEdge  == EmitMode # "edge" \/ PrintT(<<"TEST", ToJson(hist')>>)
EmitFinal == EmitMode # "final" \/ TLCGet("level") < SimDepth - 1 \/ PrintT(<<"TEST", ToJson(hist')>>)
View == <<started, shut, auto, svc, conns, nops>>

(*************************** properties on the model *****************************)
\* C10: a dial is only attempted for a SKI the user registered (or that earned trust in a handshake) and not after shutdown
DialsOf(o) == {k \in Skis : \E i \in 1..Len(o) : o[i] = "dial:" \o k}
\* C01 at the hub: a service is held trusted only on the user's word (Register, or trust earned in a handshake since)
Inv_C01_trust == \A k \in Skis : svc[k].trusted => svc[k].intent
Inv_C10_dial == \A k \in DialsOf(out) : svc[k].intent
Inv_C10_shutdown == shut => DialsOf(out) = {} \/ lastAct.a = "Shutdown"
\* C11: the end of a connection object never removes the registry entry of another (newer) connection
Inv_C11_registry == \A k \in Skis : svc[k].reg # 0 => (conns[svc[k].reg].ski = k /\ ~conns[svc[k].reg].ended)
\* C11: a disconnect notification is only raised for the registered connection (or when none is registered)
Inv_C11_notify == lastAct.a = "Closed" =>
                    LET k == conns[lastAct.i].ski
                    IN  (\E j \in 1..Len(out) : out[j] = "Disconnected:" \o k) => svc[k].reg = 0
====
