---- MODULE MonAnn ----
(***************************************************************************)
(* Monitor pass for the stateful part of C16: operation sequences run on a *)
(* REAL MdnsManager over a recording provider.  Per step the harness       *)
(* reports what the provider publishes, read back with the library's own   *)
(* TXT parser and entry processing (t.steps[i].pub: "none" / "T" / "F" =   *)
(* the Register flag of the entry a browser gets).  The monitor carries    *)
(* the flag the application configured and whether the provider refused    *)
(* the latest announcement, and evaluates the requirement of               *)
(* MdnsAnnounce.tla on the real publication.                               *)
(***************************************************************************)
EXTENDS Naturals, Sequences, TLC, Json
CONSTANT ObsFile
Trace == ndJsonDeserialize(ObsFile)
VARIABLE l
B(b) == IF b THEN "T" ELSE "F"
RECURSIVE Walk(_, _, _, _, _)
\* auto: configured flag; stale: a provider announcement failed since the last success
Walk(t, i, auto, stale, bad) ==
    IF i > Len(t.steps) THEN bad
    ELSE LET s  == t.steps[i]
             a2 == IF s.op.op = "SetAuto" THEN s.op.b ELSE auto
             \* s.calls: how the provider's Announce calls of this step ended ("ok" / "fail"), in order
             st2 == IF s.calls = <<>> THEN (IF s.pub = "none" THEN FALSE ELSE stale)
                    ELSE s.calls[Len(s.calls)] = "fail"
             b1 == IF s.pub # "none" /\ ~st2 /\ s.pub # B(a2)
                   THEN {[i |-> i, key |-> <<"C16", "published-auto-accept-flag-is-not-the-configured-one", s.op.op>>]} ELSE {}
         IN  Walk(t, i + 1, a2, st2, bad \cup b1)
Init == l = 0
Next == /\ l < Len(Trace)
        /\ l' = l + 1
        /\ LET t == Trace[l + 1]
           IN  \A b \in Walk(t, 1, FALSE, FALSE, {}) : PrintT(<<"MON", ToJson([id |-> t.id, i |-> b.i, key |-> b.key, kf |-> {}])>>)
Spec == Init /\ [][Next]_l
Done == TLCGet("stats").diameter = Len(Trace) + 1
====
