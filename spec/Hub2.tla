---- MODULE Hub2 ----
(***************************************************************************)
(* Two ship-go hubs that registered each other (C05): mDNS reports, the      *)
(* delayed dial goroutines of coordinateConnectionInitations, the NON-ATOMIC *)
(* sequences check / dial / keepThisConnection / Run / registerConnection on *)
(* both the outbound and the inbound side, the double-connection rule, close *)
(* propagation, HandleConnectionClosed and checkAutoReannounce.  The SHIP     *)
(* handshake of a connection is summarised by one Complete step (both sides  *)
(* trust each other; the handshake itself is ShipSme.tla).  Environment:     *)
(* registration and visibility in any order, DisconnectSKI, transport cuts,  *)
(* and (Rich) unregistering, losing sight of the peer, a hub restart and a   *)
(* final Shutdown.                                                           *)
(* FixStale / AtomicReg describe repairs; FALSE = the tree as it is.          *)
(***************************************************************************)
EXTENDS Naturals, Sequences, FiniteSets, TLC, Json
CONSTANTS MaxC,          \* connection ids 1..MaxC
          MaxDisturb,    \* budget of DisconnectSKI / transport cuts
          FixStale,      \* TRUE: a delayed attempt that finds its counter reset re-checks mDNS (one more report), and the
                         \*       attempt-running flag is held until the attempt is over (the repair)
          AtomicReg,     \* TRUE: keep-check .. register is one critical section (what a repair would do)
          FixIntent,     \* TRUE: an outbound connection is registered only if the peer is still paired / queued at that moment,
                         \*       and Unregister reads the registry under the same lock (repair 2 of C10)
          FixShut,       \* TRUE: registration checks the shutdown flag and Shutdown collects the connections under the
                         \*       registration lock (repair 3 of C10); FALSE: a connection being set up survives Shutdown
          Rich,          \* TRUE: Unregister / Disappear / Restart / Shutdown are environment actions as well
          EmitMode, SimDepth
Hubs == {"A", "B"}       \* SKI order: "A" > "B"
Other(h) == IF h = "A" THEN "B" ELSE "A"
Higher(h) == h = "A"
Conns == 1..MaxC

VARIABLES trusted, visible, reg, cnt, running, dials, reports, conn, nextId, disturb, shut, intent, script
svars == <<trusted, visible, reg, cnt, running, dials, reports, conn, nextId, disturb, shut, intent>>
vars == <<svars, script>>

\* conn[c] = [cl, sv, cpc, spc, alive, done]
NoConn == [cl |-> "A", sv |-> "B", cpc |-> "none", spc |-> "none", alive |-> FALSE, done |-> FALSE]

Init == /\ trusted = [h \in Hubs |-> FALSE] /\ visible = [h \in Hubs |-> FALSE]
        /\ reg = [h \in Hubs |-> 0] /\ cnt = [h \in Hubs |-> 3]      \* 3 = no counter
        /\ running = [h \in Hubs |-> FALSE] /\ dials = [h \in Hubs |-> {}]
        /\ reports = [h \in Hubs |-> 0]
        /\ conn = [c \in Conns |-> NoConn] /\ nextId = 1 /\ disturb = 0 /\ shut = [h \in Hubs |-> FALSE] /\ intent = [h \in Hubs |-> FALSE] /\ script = <<>>

LiveConns(h) == Cardinality({c \in Conns : reg[h] = c})
\* checkAutoReannounce: #trusted > #connections -> RequestMdnsEntries -> one more report goroutine
Reannounce(h, regNew) == IF trusted[h] /\ regNew = 0 /\ visible[h] THEN 1 ELSE 0

\* ------------------------------------------------------------------ user / environment
Register(h) == /\ ~intent[h] /\ ~shut[h] /\ trusted' = [trusted EXCEPT ![h] = TRUE] /\ intent' = [intent EXCEPT ![h] = TRUE]
               /\ reports' = [reports EXCEPT ![h] = IF visible[h] /\ reg[h] = 0 THEN @ + 1 ELSE @]
               /\ UNCHANGED <<visible, reg, cnt, running, dials, conn, nextId, disturb, shut>>
Appear(h) == /\ ~visible[h] /\ ~shut[h] /\ ~shut[Other(h)] /\ visible' = [visible EXCEPT ![h] = TRUE]
             /\ reports' = [reports EXCEPT ![h] = @ + 1]
             /\ UNCHANGED <<trusted, reg, cnt, running, dials, conn, nextId, disturb, shut, intent>>

\* ------------------------------------------------------------------ mDNS report -> coordinate
Report(h) == /\ reports[h] > 0 /\ reports' = [reports EXCEPT ![h] = @ - 1]
             /\ IF reg[h] # 0 \/ ~trusted[h] \/ running[h] \/ ~visible[h] \/ shut[h]
                THEN UNCHANGED <<cnt, running, dials>>
                ELSE LET k == IF cnt[h] = 3 THEN 0 ELSE IF cnt[h] >= 2 THEN 2 ELSE cnt[h] + 1
                     IN  /\ cnt' = [cnt EXCEPT ![h] = k] /\ running' = [running EXCEPT ![h] = TRUE]
                         /\ dials' = [dials EXCEPT ![h] = @ \cup {k}]
             /\ UNCHANGED <<trusted, visible, reg, conn, nextId, disturb, shut, intent>>

\* prepareConnectionInitation after the delay, up to and including the dial
Prepare(h, k) ==
    /\ k \in dials[h] /\ dials' = [dials EXCEPT ![h] = @ \ {k}]
    /\ IF cnt[h] # k
       THEN /\ running' = [running EXCEPT ![h] = FALSE]
            /\ reports' = [reports EXCEPT ![h] = @ + (IF FixStale THEN Reannounce(h, reg[h]) ELSE 0)]
            /\ UNCHANGED <<conn, nextId>>
       ELSE IF ~trusted[h] \/ reg[h] # 0 \/ nextId > MaxC \/ shut[h] \/ shut[Other(h)]
       THEN running' = [running EXCEPT ![h] = FALSE] /\ UNCHANGED <<conn, nextId, reports>>
       ELSE /\ conn' = [conn EXCEPT ![nextId] = [cl |-> h, sv |-> Other(h), cpc |-> "dialed", spc |-> "accepted",
                                                  alive |-> TRUE, done |-> FALSE]]
            /\ nextId' = nextId + 1 /\ UNCHANGED reports
            /\ running' = IF FixStale THEN running ELSE [running EXCEPT ![h] = FALSE]     \* held until the attempt is over
    /\ UNCHANGED <<trusted, visible, reg, cnt, disturb, shut, intent>>

\* ------------------------------------------------------------------ closing one side of a connection
\* HandleConnectionClosed(h, c): registry removal only for the registered object; counter reset if completed
ClosedEffect(h, c, completed, regv, cntv) ==
    [reg |-> IF regv = c THEN 0 ELSE regv,
     cnt |-> IF regv # 0 /\ completed THEN 3 ELSE cntv]

RunAfter(h, completedClose) == running

\* ------------------------------------------------------------------ outbound side: keep -> Run -> register
KeepDecision(h, incoming) == IF incoming THEN Higher(Other(h)) ELSE Higher(h)

\* closing the existing registered connection of h (go existingC.CloseConnection)
CloseExisting(h, cs) ==
    LET e == reg[h] IN
    IF e = 0 THEN cs
    ELSE [cs EXCEPT ![e].alive = FALSE,
                    ![e].cpc = IF cs[e].cl = h THEN "closed" ELSE @,
                    ![e].spc = IF cs[e].sv = h THEN "closed" ELSE @]

OKeep(c) ==
    /\ conn[c].cpc = "dialed"
    /\ LET h == conn[c].cl IN
       IF reg[h] = 0
       THEN /\ conn' = [conn EXCEPT ![c].cpc = "kept"] /\ UNCHANGED <<reg, cnt, reports>>
       ELSE IF KeepDecision(h, FALSE)
            THEN LET e == reg[h]
                     eff == ClosedEffect(h, e, conn[e].done, reg[h], cnt[h])
                 IN  /\ conn' = [CloseExisting(h, conn) EXCEPT ![c].cpc = "kept"]
                     /\ reg' = [reg EXCEPT ![h] = eff.reg] /\ cnt' = [cnt EXCEPT ![h] = eff.cnt]
                     /\ reports' = [reports EXCEPT ![h] = @ + Reannounce(h, eff.reg)]
            ELSE /\ conn' = [conn EXCEPT ![c].cpc = "closed", ![c].alive = FALSE]
                 /\ UNCHANGED <<reg, cnt, reports>>
    /\ UNCHANGED <<trusted, visible, running, dials, nextId, disturb, shut, intent>>

\* Run(): if the transport is already dead the connection ends in error right here
\* (HandleConnectionClosed for an unregistered object), and is registered afterwards all the same
ORunReg(c) ==
    /\ conn[c].cpc = "kept"
    /\ LET h == conn[c].cl IN
       /\ conn' = [conn EXCEPT ![c].cpc = IF conn[c].alive THEN "reg" ELSE "regDead"]
       /\ reg' = [reg EXCEPT ![h] = c]
       /\ reports' = [reports EXCEPT ![h] = @ + (IF conn[c].alive THEN 0 ELSE Reannounce(h, reg[h]))]
    /\ UNCHANGED <<trusted, visible, cnt, running, dials, nextId, disturb, shut, intent>>

\* atomic variant: keep-check, Run and register in one step
OAtomic(c) ==
    /\ conn[c].cpc = "dialed"
    /\ LET h == conn[c].cl IN
       IF (FixIntent /\ ~trusted[h]) \/ (FixShut /\ shut[h])     \* no longer paired / shut down: closed instead of registered
       THEN /\ conn' = [conn EXCEPT ![c].cpc = "closed", ![c].alive = FALSE] /\ UNCHANGED <<reg, cnt, reports>>
       ELSE IF reg[h] # 0 /\ ~KeepDecision(h, FALSE)
       THEN /\ conn' = [conn EXCEPT ![c].cpc = "closed", ![c].alive = FALSE] /\ UNCHANGED <<reg, cnt, reports>>
       ELSE IF ~conn[c].alive
       THEN /\ conn' = [conn EXCEPT ![c].cpc = "closed"] /\ UNCHANGED <<reg, cnt>>
            /\ reports' = [reports EXCEPT ![h] = @ + Reannounce(h, reg[h])]
       ELSE LET e == reg[h]
                eff == IF e = 0 THEN [reg |-> 0, cnt |-> cnt[h]] ELSE ClosedEffect(h, e, conn[e].done, reg[h], cnt[h])
            IN  /\ conn' = [CloseExisting(h, conn) EXCEPT ![c].cpc = "reg"]
                /\ reg' = [reg EXCEPT ![h] = c] /\ cnt' = [cnt EXCEPT ![h] = eff.cnt] /\ UNCHANGED reports
    /\ running' = [running EXCEPT ![conn[c].cl] = FALSE]          \* the attempt of the dialling hub is over
    /\ UNCHANGED <<trusted, visible, dials, nextId, disturb, shut, intent>>

\* ------------------------------------------------------------------ inbound side
SKeep(c) ==
    /\ conn[c].spc = "accepted"
    /\ LET h == conn[c].sv IN
       IF reg[h] = 0
       THEN /\ conn' = [conn EXCEPT ![c].spc = "kept"] /\ UNCHANGED <<reg, cnt, reports>>
       ELSE IF KeepDecision(h, TRUE)
            THEN LET e == reg[h]
                     eff == ClosedEffect(h, e, conn[e].done, reg[h], cnt[h])
                 IN  /\ conn' = [CloseExisting(h, conn) EXCEPT ![c].spc = "kept"]
                     /\ reg' = [reg EXCEPT ![h] = eff.reg] /\ cnt' = [cnt EXCEPT ![h] = eff.cnt]
                     /\ reports' = [reports EXCEPT ![h] = @ + Reannounce(h, eff.reg)]
            ELSE /\ conn' = [conn EXCEPT ![c].spc = "closed", ![c].alive = FALSE]
                 /\ UNCHANGED <<reg, cnt, reports>>
    /\ UNCHANGED <<trusted, visible, running, dials, nextId, disturb, shut, intent>>

SRunReg(c) ==
    /\ conn[c].spc = "kept"
    /\ LET h == conn[c].sv IN
       /\ conn' = [conn EXCEPT ![c].spc = IF conn[c].alive THEN "reg" ELSE "regDead"]
       /\ reg' = [reg EXCEPT ![h] = c]
       /\ reports' = [reports EXCEPT ![h] = @ + (IF conn[c].alive THEN 0 ELSE Reannounce(h, reg[h]))]
    /\ UNCHANGED <<trusted, visible, cnt, running, dials, nextId, disturb, shut, intent>>

SAtomic(c) ==
    /\ conn[c].spc = "accepted"
    /\ LET h == conn[c].sv IN
       IF (FixShut /\ shut[h]) \/ (reg[h] # 0 /\ ~KeepDecision(h, TRUE))
       THEN /\ conn' = [conn EXCEPT ![c].spc = "closed", ![c].alive = FALSE] /\ UNCHANGED <<reg, cnt, reports>>
       ELSE IF ~conn[c].alive
       THEN /\ conn' = [conn EXCEPT ![c].spc = "closed"] /\ UNCHANGED <<reg, cnt>>
            /\ reports' = [reports EXCEPT ![h] = @ + Reannounce(h, reg[h])]
       ELSE LET e == reg[h]
                eff == IF e = 0 THEN [reg |-> 0, cnt |-> cnt[h]] ELSE ClosedEffect(h, e, conn[e].done, reg[h], cnt[h])
            IN  /\ conn' = [CloseExisting(h, conn) EXCEPT ![c].spc = "reg"]
                /\ reg' = [reg EXCEPT ![h] = c] /\ cnt' = [cnt EXCEPT ![h] = eff.cnt] /\ UNCHANGED reports
    /\ UNCHANGED <<trusted, visible, running, dials, nextId, disturb, shut, intent>>

\* ------------------------------------------------------------------ handshake, transport loss, disturbances
\* the server side needs trust (C01); the client side trusts by role - it dialled - and reaching hello-ok sets the paired flag
Complete(c) == /\ conn[c].alive /\ ~conn[c].done /\ trusted[conn[c].sv]
               /\ conn[c].cpc \in {"kept", "reg"} /\ conn[c].spc \in {"kept", "reg"}
               /\ conn' = [conn EXCEPT ![c].done = TRUE]
               /\ trusted' = [trusted EXCEPT ![conn[c].cl] = TRUE]
               /\ UNCHANGED <<visible, reg, cnt, running, dials, reports, nextId, disturb, shut, intent>>

\* a side that is past Run notices that the transport is gone: CloseConnection -> HandleConnectionClosed
Notice(c, side) ==
    /\ ~conn[c].alive
    /\ LET h == IF side = "c" THEN conn[c].cl ELSE conn[c].sv
           pc == IF side = "c" THEN conn[c].cpc ELSE conn[c].spc
           eff == ClosedEffect(h, c, conn[c].done, reg[h], cnt[h])
       IN  /\ pc = "reg"
           /\ conn' = IF side = "c" THEN [conn EXCEPT ![c].cpc = "closed"] ELSE [conn EXCEPT ![c].spc = "closed"]
           /\ reg' = [reg EXCEPT ![h] = eff.reg] /\ cnt' = [cnt EXCEPT ![h] = eff.cnt]
           /\ reports' = [reports EXCEPT ![h] = @ + Reannounce(h, eff.reg)]
           /\ running' = RunAfter(h, conn[c].done)
    /\ UNCHANGED <<trusted, visible, dials, nextId, disturb, shut, intent>>

\* the side that lost the keep decision before Run simply closed the socket: nothing to report
Drop(c, side) ==
    /\ ~conn[c].alive
    /\ IF side = "c" THEN conn[c].cpc = "dialed" /\ conn' = [conn EXCEPT ![c].cpc = "closed"]
                     ELSE conn[c].spc = "accepted" /\ conn' = [conn EXCEPT ![c].spc = "closed"]
    /\ FALSE   \* disabled: an unkept side still runs keep -> Run -> register in the code (that is race a)
    /\ UNCHANGED <<trusted, visible, reg, cnt, running, dials, reports, nextId, disturb, shut, intent>>

Disconnect(h) == /\ disturb < MaxDisturb /\ reg[h] # 0 /\ conn[reg[h]].done /\ conn[reg[h]].alive
                 /\ LET c == reg[h]
                        eff == ClosedEffect(h, c, TRUE, reg[h], cnt[h])
                    IN  /\ conn' = [CloseExisting(h, conn) EXCEPT ![c].alive = FALSE]
                        /\ reg' = [reg EXCEPT ![h] = eff.reg] /\ cnt' = [cnt EXCEPT ![h] = eff.cnt]
                        /\ reports' = [reports EXCEPT ![h] = @ + Reannounce(h, eff.reg)]
                 /\ disturb' = disturb + 1 /\ running' = RunAfter(h, TRUE)
                 /\ UNCHANGED <<trusted, visible, dials, nextId, shut, intent>>

Cut(c) == /\ disturb < MaxDisturb /\ conn[c].alive /\ conn' = [conn EXCEPT ![c].alive = FALSE]
          /\ disturb' = disturb + 1
          /\ UNCHANGED <<trusted, visible, reg, cnt, running, dials, reports, nextId, shut, intent>>

\* ------------------------------------------------------------------ richer environment (Rich)
\* a handshake that cannot complete (one side does not trust) may end at any time: abort, denial, timers
Expire(c) == /\ Rich /\ conn[c].alive /\ ~conn[c].done /\ ~trusted[conn[c].sv]
             /\ conn[c].cpc \in {"kept", "reg"} /\ conn[c].spc \in {"kept", "reg"}
             /\ conn' = [conn EXCEPT ![c].alive = FALSE]
             /\ UNCHANGED <<trusted, visible, reg, cnt, running, dials, reports, nextId, disturb, shut, intent>>
\* UnregisterRemoteSKI: trust and attempt counter gone, the registered connection closed
Unregister(h) == /\ Rich /\ disturb < MaxDisturb /\ intent[h] /\ ~shut[h]
                 /\ trusted' = [trusted EXCEPT ![h] = FALSE] /\ intent' = [intent EXCEPT ![h] = FALSE]
                 /\ LET c == reg[h] IN
                    IF c = 0 THEN cnt' = [cnt EXCEPT ![h] = 3] /\ UNCHANGED <<conn, reg>>
                    ELSE /\ conn' = [CloseExisting(h, conn) EXCEPT ![c].alive = FALSE]
                         /\ reg' = [reg EXCEPT ![h] = 0] /\ cnt' = [cnt EXCEPT ![h] = 3]
                 /\ disturb' = disturb + 1
                 /\ UNCHANGED <<visible, running, dials, reports, nextId, shut>>
\* h loses sight of its peer on mDNS (no report leads to a dial any more)
Disappear(h) == /\ Rich /\ disturb < MaxDisturb /\ visible[h] /\ visible' = [visible EXCEPT ![h] = FALSE]
                /\ disturb' = disturb + 1
                /\ UNCHANGED <<trusted, reg, cnt, running, dials, reports, conn, nextId, shut, intent>>
\* everything hub h holds is gone and its connections die
Down(h, cs) == [c \in Conns |-> IF cs[c].cl = h \/ cs[c].sv = h
                                 THEN [cs[c] EXCEPT !.alive = FALSE,
                                                    !.cpc = IF cs[c].cl = h /\ @ # "none" THEN "closed" ELSE @,
                                                    !.spc = IF cs[c].sv = h /\ @ # "none" THEN "closed" ELSE @]
                                 ELSE cs[c]]
\* Restart: h comes back at once with the same identity, re-registers what the user had registered and hears the peer's
\* announcement again; the peer sees h's service removed and added
Restart(h) == /\ Rich /\ disturb < MaxDisturb /\ ~shut[h]
              /\ conn' = Down(h, conn)
              /\ reg' = [reg EXCEPT ![h] = 0] /\ cnt' = [cnt EXCEPT ![h] = 3] /\ running' = [running EXCEPT ![h] = FALSE]
              /\ dials' = [dials EXCEPT ![h] = {}]
              /\ reports' = [reports EXCEPT ![h] = IF visible[h] THEN 1 ELSE 0,
                                            ![Other(h)] = IF visible[Other(h)] THEN @ + 2 ELSE @]
              /\ disturb' = disturb + 1
              /\ trusted' = [trusted EXCEPT ![h] = intent[h]]
              /\ UNCHANGED <<visible, nextId, shut, intent>>
\* Shutdown: h stays down.  As is, Shutdown closes what is registered: a connection h is just setting up goes on
ShutDownConns(h, cs) == [c \in Conns |-> IF ~FixShut /\ ((cs[c].cl = h /\ cs[c].cpc = "dialed") \/ (cs[c].sv = h /\ cs[c].spc = "accepted"))
                                          THEN cs[c] ELSE Down(h, cs)[c]]
Shutdown(h) == /\ Rich /\ disturb < MaxDisturb /\ ~shut[h]
               /\ shut' = [shut EXCEPT ![h] = TRUE]
               /\ conn' = ShutDownConns(h, conn)
               /\ reg' = [reg EXCEPT ![h] = 0] /\ running' = [running EXCEPT ![h] = FALSE] /\ dials' = [dials EXCEPT ![h] = {}]
               /\ reports' = [reports EXCEPT ![h] = 0, ![Other(h)] = IF visible[Other(h)] THEN @ + 1 ELSE @]
               /\ visible' = [visible EXCEPT ![Other(h)] = FALSE]
               /\ disturb' = disturb + 1
               /\ UNCHANGED <<trusted, cnt, nextId, intent>>

Lib == \/ \E h \in Hubs : Report(h) \/ \E k \in 0..2 : Prepare(h, k)
       \/ \E c \in Conns : \/ (IF AtomicReg THEN OAtomic(c) \/ SAtomic(c) ELSE OKeep(c) \/ ORunReg(c) \/ SKeep(c) \/ SRunReg(c))
                           \/ Complete(c) \/ Notice(c, "c") \/ Notice(c, "s") \/ Expire(c)
\* an environment step is logged together with whether the library had come to rest before it
LibIdle == ~ENABLED Lib
Log(op, h) == script' = IF EmitMode = "none" THEN script ELSE Append(script, [op |-> op, h |-> h, quiet |-> LibIdle])
Env == \/ \E h \in Hubs : (Register(h) /\ Log("Register", h)) \/ (Appear(h) /\ Log("Appear", h)) \/ (Disconnect(h) /\ Log("Disconnect", h))
                          \/ (Unregister(h) /\ Log("Unregister", h)) \/ (Disappear(h) /\ Log("Disappear", h))
                          \/ (Restart(h) /\ Log("Restart", h)) \/ (Shutdown(h) /\ Log("Shutdown", h))
       \/ \E c \in Conns : (Cut(c) /\ Log("Cut", ""))
Next == (Lib /\ UNCHANGED script) \/ Env
Spec == Init /\ [][Next]_vars /\ WF_vars(Lib)

\* ------------------------------------------------------------------ properties
Stable == \A h \in Hubs : intent[h] /\ visible[h] /\ ~shut[h]
Quiet  == /\ \A h \in Hubs : reports[h] = 0 /\ dials[h] = {}
          /\ ~ENABLED Lib
Emit == EmitMode = "none" \/ script' = script \/ PrintT(<<"TEST", ToJson(script')>>)
Good(c) == conn[c].alive /\ conn[c].done /\ conn[c].cpc = "reg" /\ conn[c].spc = "reg"
           /\ reg[conn[c].cl] = c /\ reg[conn[c].sv] = c
OneGood == \E c \in Conns : Good(c) /\ \A d \in Conns \ {c} : ~conn[d].alive
\* safety at quiescence (ids not exhausted)
P_C05 == (Stable /\ Quiet /\ nextId <= MaxC) => OneGood
\* no live connection that neither registry knows
NoOrphan == \A c \in Conns : (Quiet /\ conn[c].alive /\ conn[c].cpc = "reg" /\ conn[c].spc = "reg")
                               => (reg[conn[c].cl] = c /\ reg[conn[c].sv] = c)
\* C10 on two hubs: no completed connection while either side does not trust; nothing alive at a hub that was shut down
P_C10_trust == /\ \A h \in Hubs : trusted[h] => intent[h]
               /\ \A c \in Conns : (Quiet /\ Good(c)) => (intent[conn[c].cl] /\ intent[conn[c].sv])
P_C10_shut  == \A c \in Conns : conn[c].alive => (~shut[conn[c].cl] /\ ~shut[conn[c].sv])
KF_a == \E c \in Conns : conn[c].cpc = "regDead" \/ conn[c].spc = "regDead"
P_C05_modA == ~KF_a => P_C05
NoOrphan_modA == ~KF_a => NoOrphan
====
