---- MODULE Hub2 ----
(***************************************************************************)
(* Two ship-go hubs that registered each other (C05): mDNS reports, the      *)
(* delayed dial goroutines of coordinateConnectionInitations, the NON-ATOMIC *)
(* sequences check / dial / keepThisConnection / Run / registerConnection on *)
(* both the outbound and the inbound side, the double-connection rule, close *)
(* propagation, HandleConnectionClosed and checkAutoReannounce.  The SHIP     *)
(* handshake of a connection is summarised by one Complete step (both sides  *)
(* trust each other; the handshake itself is ShipSme.tla).  Environment:     *)
(* registration and visibility in any order, DisconnectSKI, transport cuts,  *)
(* and (Rich) unregistering, losing sight of the peer, a hub restart and a   *)
(* final Shutdown.                                                           *)
(* FixStale / AtomicReg describe repairs; FALSE = the tree as it is.          *)
(***************************************************************************)
EXTENDS Naturals, Sequences, FiniteSets, TLC, Json
CONSTANTS MaxC,          \* connection ids 1..MaxC
          MaxDisturb,    \* budget of DisconnectSKI / transport cuts
          FixStale,      \* TRUE: a delayed attempt that finds its counter reset re-checks mDNS (one more report), and the
                         \*       attempt-running flag is held until the attempt is over (the repair)
          AtomicReg,     \* TRUE: keep-check .. register is one critical section (what a repair would do)
          FixIntent,     \* TRUE: an outbound connection is registered only if the peer is still paired / queued at that moment,
                         \*       and Unregister reads the registry under the same lock (repair 2 of C10)
          FixCancel,     \* TRUE: CancelPairingWithSKI ends a connection whose handshake is past the hello phase (repair); FALSE:
                         \*       such a connection goes on and completes although the pairing was cancelled
          CancelSplit,   \* TRUE: CancelPairingWithSKI is the two steps it is in the code (the library acts in between); FALSE: one step
          FixCancelOrder,\* TRUE: it takes the trust away first and then looks into the registry under the registration lock
                         \*       (repair 2 of CancelPairingWithSKI); FALSE: it looked first - a dial that became a connection in
                         \*       between went on, completed and made the peer trusted again
          FixShut,       \* TRUE: registration checks the shutdown flag and Shutdown collects the connections under the
                         \*       registration lock (repair 3 of C10); FALSE: a connection being set up survives Shutdown
          Rich,          \* TRUE: Unregister / Disappear / Restart / Shutdown are environment actions as well
          Rich2,         \* TRUE: CancelPairingWithSKI and SetAutoAccept are environment actions as well
          Warm,          \* TRUE: the scenario starts with both users registered and both hubs in sight of each other (the
                         \*       environment steps that follow are disturbances of a pair that connects)
          IdWrong,       \* hubs whose application stored a WRONG SHIP id for the peer (C09): no handshake with them completes
          EmitMode, SimDepth
Hubs == {"A", "B"}       \* SKI order: "A" > "B"
Other(h) == IF h = "A" THEN "B" ELSE "A"
Higher(h) == h = "A"
Conns == 1..MaxC

VARIABLES trusted, visible, reg, cnt, running, dials, reports, conn, nextId, disturb, shut, intent, auto, ureg, script,
          canc           \* canc[h]: a CancelPairingWithSKI call of hub h's user is between its two steps
svars == <<trusted, visible, reg, cnt, running, dials, reports, conn, nextId, disturb, shut, intent, auto, ureg, canc>>
vars == <<svars, script>>

\* conn[c] = [cl, sv, cpc, spc, alive, done]
NoConn == [cl |-> "A", sv |-> "B", cpc |-> "none", spc |-> "none", alive |-> FALSE, done |-> FALSE]

Init == /\ trusted = [h \in Hubs |-> Warm] /\ visible = [h \in Hubs |-> Warm]
        /\ reg = [h \in Hubs |-> 0] /\ cnt = [h \in Hubs |-> 3]      \* 3 = no counter
        /\ running = [h \in Hubs |-> FALSE] /\ dials = [h \in Hubs |-> {}]
        /\ reports = [h \in Hubs |-> IF Warm THEN 1 ELSE 0]
        /\ conn = [c \in Conns |-> NoConn] /\ nextId = 1 /\ disturb = 0 /\ shut = [h \in Hubs |-> FALSE] /\ intent = [h \in Hubs |-> Warm] /\ auto = [h \in Hubs |-> FALSE] /\ ureg = [h \in Hubs |-> Warm] /\ script = <<>>
        /\ canc = [h \in Hubs |-> FALSE]

LiveConns(h) == Cardinality({c \in Conns : reg[h] = c})
\* checkAutoReannounce: #trusted > #connections -> RequestMdnsEntries -> one more report goroutine
Reannounce(h, regNew) == IF trusted[h] /\ regNew = 0 /\ visible[h] THEN 1 ELSE 0

\* ------------------------------------------------------------------ user / environment
Register(h) == /\ ~ureg[h] /\ ~shut[h] /\ trusted' = [trusted EXCEPT ![h] = TRUE] /\ intent' = [intent EXCEPT ![h] = TRUE]
               /\ ureg' = [ureg EXCEPT ![h] = TRUE]
               /\ reports' = [reports EXCEPT ![h] = IF visible[h] /\ reg[h] = 0 THEN @ + 1 ELSE @]
               /\ UNCHANGED <<visible, reg, cnt, running, dials, conn, nextId, disturb, shut, auto>>
Appear(h) == /\ ~visible[h] /\ ~shut[h] /\ ~shut[Other(h)] /\ visible' = [visible EXCEPT ![h] = TRUE]
             /\ reports' = [reports EXCEPT ![h] = @ + 1]
             /\ UNCHANGED <<trusted, reg, cnt, running, dials, conn, nextId, disturb, shut, intent, auto, ureg>>

\* ------------------------------------------------------------------ mDNS report -> coordinate
Report(h) == /\ reports[h] > 0 /\ reports' = [reports EXCEPT ![h] = @ - 1]
             /\ IF reg[h] # 0 \/ ~trusted[h] \/ running[h] \/ ~visible[h] \/ shut[h]
                THEN UNCHANGED <<cnt, running, dials>>
                ELSE LET k == IF cnt[h] = 3 THEN 0 ELSE IF cnt[h] >= 2 THEN 2 ELSE cnt[h] + 1
                     IN  /\ cnt' = [cnt EXCEPT ![h] = k] /\ running' = [running EXCEPT ![h] = TRUE]
                         /\ dials' = [dials EXCEPT ![h] = @ \cup {k}]
             /\ UNCHANGED <<trusted, visible, reg, conn, nextId, disturb, shut, intent, auto, ureg>>

\* prepareConnectionInitation after the delay, up to and including the dial
Prepare(h, k) ==
    /\ k \in dials[h] /\ dials' = [dials EXCEPT ![h] = @ \ {k}]
    /\ IF cnt[h] # k
       THEN /\ running' = [running EXCEPT ![h] = FALSE]
            /\ reports' = [reports EXCEPT ![h] = @ + (IF FixStale THEN Reannounce(h, reg[h]) ELSE 0)]
            /\ UNCHANGED <<conn, nextId>>
       ELSE IF ~trusted[h] \/ reg[h] # 0 \/ nextId > MaxC \/ shut[h] \/ shut[Other(h)]
       THEN running' = [running EXCEPT ![h] = FALSE] /\ UNCHANGED <<conn, nextId, reports>>
       ELSE /\ conn' = [conn EXCEPT ![nextId] = [cl |-> h, sv |-> Other(h), cpc |-> "dialed", spc |-> "accepted",
                                                  alive |-> TRUE, done |-> FALSE]]
            /\ nextId' = nextId + 1 /\ UNCHANGED reports
            /\ running' = IF FixStale THEN running ELSE [running EXCEPT ![h] = FALSE]     \* held until the attempt is over
    /\ UNCHANGED <<trusted, visible, reg, cnt, disturb, shut, intent, auto, ureg>>

\* ------------------------------------------------------------------ closing one side of a connection
\* HandleConnectionClosed(h, c): registry removal only for the registered object; counter reset if completed
ClosedEffect(h, c, completed, regv, cntv) ==
    [reg |-> IF regv = c THEN 0 ELSE regv,
     cnt |-> IF regv # 0 /\ completed THEN 3 ELSE cntv]

RunAfter(h, completedClose) == running

\* ------------------------------------------------------------------ outbound side: keep -> Run -> register
KeepDecision(h, incoming) == IF incoming THEN Higher(Other(h)) ELSE Higher(h)

\* closing the existing registered connection of h (go existingC.CloseConnection)
CloseExisting(h, cs) ==
    LET e == reg[h] IN
    IF e = 0 THEN cs
    ELSE [cs EXCEPT ![e].alive = FALSE,
                    ![e].cpc = IF cs[e].cl = h THEN "closed" ELSE @,
                    ![e].spc = IF cs[e].sv = h THEN "closed" ELSE @]

OKeep(c) ==
    /\ conn[c].cpc = "dialed"
    /\ LET h == conn[c].cl IN
       IF reg[h] = 0
       THEN /\ conn' = [conn EXCEPT ![c].cpc = "kept"] /\ UNCHANGED <<reg, cnt, reports>>
       ELSE IF KeepDecision(h, FALSE)
            THEN LET e == reg[h]
                     eff == ClosedEffect(h, e, conn[e].done, reg[h], cnt[h])
                 IN  /\ conn' = [CloseExisting(h, conn) EXCEPT ![c].cpc = "kept"]
                     /\ reg' = [reg EXCEPT ![h] = eff.reg] /\ cnt' = [cnt EXCEPT ![h] = eff.cnt]
                     /\ reports' = [reports EXCEPT ![h] = @ + Reannounce(h, eff.reg)]
            ELSE /\ conn' = [conn EXCEPT ![c].cpc = "closed", ![c].alive = FALSE]
                 /\ UNCHANGED <<reg, cnt, reports>>
    /\ UNCHANGED <<trusted, visible, running, dials, nextId, disturb, shut, intent, auto, ureg>>

\* Run(): if the transport is already dead the connection ends in error right here
\* (HandleConnectionClosed for an unregistered object), and is registered afterwards all the same
ORunReg(c) ==
    /\ conn[c].cpc = "kept"
    /\ LET h == conn[c].cl IN
       /\ conn' = [conn EXCEPT ![c].cpc = IF conn[c].alive THEN "reg" ELSE "regDead"]
       /\ reg' = [reg EXCEPT ![h] = c]
       /\ reports' = [reports EXCEPT ![h] = @ + (IF conn[c].alive THEN 0 ELSE Reannounce(h, reg[h]))]
    /\ UNCHANGED <<trusted, visible, cnt, running, dials, nextId, disturb, shut, intent, auto, ureg>>

\* atomic variant: keep-check, Run and register in one step
OAtomic(c) ==
    /\ conn[c].cpc = "dialed"
    /\ LET h == conn[c].cl IN
       IF (FixIntent /\ ~trusted[h]) \/ (FixShut /\ shut[h])     \* no longer paired / shut down: closed instead of registered
       THEN /\ conn' = [conn EXCEPT ![c].cpc = "closed", ![c].alive = FALSE] /\ UNCHANGED <<reg, cnt, reports>>
       ELSE IF reg[h] # 0 /\ ~KeepDecision(h, FALSE)
       THEN /\ conn' = [conn EXCEPT ![c].cpc = "closed", ![c].alive = FALSE] /\ UNCHANGED <<reg, cnt, reports>>
       ELSE IF ~conn[c].alive
       THEN /\ conn' = [conn EXCEPT ![c].cpc = "closed"] /\ UNCHANGED <<reg, cnt>>
            /\ reports' = [reports EXCEPT ![h] = @ + Reannounce(h, reg[h])]
       ELSE LET e == reg[h]
                eff == IF e = 0 THEN [reg |-> 0, cnt |-> cnt[h]] ELSE ClosedEffect(h, e, conn[e].done, reg[h], cnt[h])
            IN  /\ conn' = [CloseExisting(h, conn) EXCEPT ![c].cpc = "reg"]
                /\ reg' = [reg EXCEPT ![h] = c] /\ cnt' = [cnt EXCEPT ![h] = eff.cnt] /\ UNCHANGED reports
    /\ running' = [running EXCEPT ![conn[c].cl] = FALSE]          \* the attempt of the dialling hub is over
    /\ UNCHANGED <<trusted, visible, dials, nextId, disturb, shut, intent, auto, ureg>>

\* ------------------------------------------------------------------ inbound side
SKeep(c) ==
    /\ conn[c].spc = "accepted"
    /\ LET h == conn[c].sv IN
       IF reg[h] = 0
       THEN /\ conn' = [conn EXCEPT ![c].spc = "kept"] /\ UNCHANGED <<reg, cnt, reports>>
       ELSE IF KeepDecision(h, TRUE)
            THEN LET e == reg[h]
                     eff == ClosedEffect(h, e, conn[e].done, reg[h], cnt[h])
                 IN  /\ conn' = [CloseExisting(h, conn) EXCEPT ![c].spc = "kept"]
                     /\ reg' = [reg EXCEPT ![h] = eff.reg] /\ cnt' = [cnt EXCEPT ![h] = eff.cnt]
                     /\ reports' = [reports EXCEPT ![h] = @ + Reannounce(h, eff.reg)]
            ELSE /\ conn' = [conn EXCEPT ![c].spc = "closed", ![c].alive = FALSE]
                 /\ UNCHANGED <<reg, cnt, reports>>
    /\ UNCHANGED <<trusted, visible, running, dials, nextId, disturb, shut, intent, auto, ureg>>

SRunReg(c) ==
    /\ conn[c].spc = "kept"
    /\ LET h == conn[c].sv IN
       /\ conn' = [conn EXCEPT ![c].spc = IF conn[c].alive THEN "reg" ELSE "regDead"]
       /\ reg' = [reg EXCEPT ![h] = c]
       /\ reports' = [reports EXCEPT ![h] = @ + (IF conn[c].alive THEN 0 ELSE Reannounce(h, reg[h]))]
    /\ UNCHANGED <<trusted, visible, cnt, running, dials, nextId, disturb, shut, intent, auto, ureg>>

SAtomic(c) ==
    /\ conn[c].spc = "accepted"
    /\ LET h == conn[c].sv IN
       IF (FixShut /\ shut[h]) \/ (reg[h] # 0 /\ ~KeepDecision(h, TRUE))
       THEN /\ conn' = [conn EXCEPT ![c].spc = "closed", ![c].alive = FALSE] /\ UNCHANGED <<reg, cnt, reports>>
       ELSE IF ~conn[c].alive
       THEN /\ conn' = [conn EXCEPT ![c].spc = "closed"] /\ UNCHANGED <<reg, cnt>>
            /\ reports' = [reports EXCEPT ![h] = @ + Reannounce(h, reg[h])]
       ELSE LET e == reg[h]
                eff == IF e = 0 THEN [reg |-> 0, cnt |-> cnt[h]] ELSE ClosedEffect(h, e, conn[e].done, reg[h], cnt[h])
            IN  /\ conn' = [CloseExisting(h, conn) EXCEPT ![c].spc = "reg"]
                /\ reg' = [reg EXCEPT ![h] = c] /\ cnt' = [cnt EXCEPT ![h] = eff.cnt] /\ UNCHANGED reports
    /\ UNCHANGED <<trusted, visible, running, dials, nextId, disturb, shut, intent, auto, ureg>>

\* ------------------------------------------------------------------ handshake, transport loss, disturbances
\* the server side needs trust (C01); the client side trusts by role - it dialled - and reaching hello-ok sets the paired flag
\* auto accept: the server side goes to hello-ok without its user and hello-ok marks the peer as paired (that standing
\* instruction is the user's word: intent).  A hub that stored a wrong SHIP id for the peer never completes (C09).
Complete(c) == /\ conn[c].alive /\ ~conn[c].done /\ (trusted[conn[c].sv] \/ auto[conn[c].sv])
               /\ conn[c].cl \notin IdWrong /\ conn[c].sv \notin IdWrong
               /\ conn[c].cpc \in {"kept", "reg"} /\ conn[c].spc \in {"kept", "reg"}
               /\ conn' = [conn EXCEPT ![c].done = TRUE]
               /\ trusted' = [trusted EXCEPT ![conn[c].cl] = TRUE, ![conn[c].sv] = TRUE]
               /\ intent' = [intent EXCEPT ![conn[c].sv] = @ \/ auto[conn[c].sv]]
               /\ UNCHANGED <<visible, reg, cnt, running, dials, reports, nextId, disturb, shut, auto, ureg>>

\* a side that is past Run notices that the transport is gone: CloseConnection -> HandleConnectionClosed
Notice(c, side) ==
    /\ ~conn[c].alive
    /\ LET h == IF side = "c" THEN conn[c].cl ELSE conn[c].sv
           pc == IF side = "c" THEN conn[c].cpc ELSE conn[c].spc
           eff == ClosedEffect(h, c, conn[c].done, reg[h], cnt[h])
       IN  /\ pc = "reg"
           /\ conn' = IF side = "c" THEN [conn EXCEPT ![c].cpc = "closed"] ELSE [conn EXCEPT ![c].spc = "closed"]
           /\ reg' = [reg EXCEPT ![h] = eff.reg] /\ cnt' = [cnt EXCEPT ![h] = eff.cnt]
           /\ reports' = [reports EXCEPT ![h] = @ + Reannounce(h, eff.reg)]
           /\ running' = RunAfter(h, conn[c].done)
    /\ UNCHANGED <<trusted, visible, dials, nextId, disturb, shut, intent, auto, ureg>>

\* the side that lost the keep decision before Run simply closed the socket: nothing to report
Drop(c, side) ==
    /\ ~conn[c].alive
    /\ IF side = "c" THEN conn[c].cpc = "dialed" /\ conn' = [conn EXCEPT ![c].cpc = "closed"]
                     ELSE conn[c].spc = "accepted" /\ conn' = [conn EXCEPT ![c].spc = "closed"]
    /\ FALSE   \* disabled: an unkept side still runs keep -> Run -> register in the code (that is race a)
    /\ UNCHANGED <<trusted, visible, reg, cnt, running, dials, reports, nextId, disturb, shut, intent, auto, ureg>>

Disconnect(h) == /\ disturb < MaxDisturb /\ reg[h] # 0 /\ conn[reg[h]].done /\ conn[reg[h]].alive
                 /\ LET c == reg[h]
                        eff == ClosedEffect(h, c, TRUE, reg[h], cnt[h])
                    IN  /\ conn' = [CloseExisting(h, conn) EXCEPT ![c].alive = FALSE]
                        /\ reg' = [reg EXCEPT ![h] = eff.reg] /\ cnt' = [cnt EXCEPT ![h] = eff.cnt]
                        /\ reports' = [reports EXCEPT ![h] = @ + Reannounce(h, eff.reg)]
                 /\ disturb' = disturb + 1 /\ running' = RunAfter(h, TRUE)
                 /\ UNCHANGED <<trusted, visible, dials, nextId, shut, intent, auto, ureg>>

Cut(c) == /\ disturb < MaxDisturb /\ conn[c].alive /\ conn' = [conn EXCEPT ![c].alive = FALSE]
          /\ disturb' = disturb + 1
          /\ UNCHANGED <<trusted, visible, reg, cnt, running, dials, reports, nextId, shut, intent, auto, ureg>>

\* ------------------------------------------------------------------ richer environment (Rich)
\* a handshake that cannot complete (one side does not trust) may end at any time: abort, denial, timers
Expire(c) == /\ (Rich \/ Rich2 \/ IdWrong # {}) /\ conn[c].alive /\ ~conn[c].done
             /\ (~trusted[conn[c].sv] \/ conn[c].cl \in IdWrong \/ conn[c].sv \in IdWrong)
             /\ conn[c].cpc \in {"kept", "reg"} /\ conn[c].spc \in {"kept", "reg"}
             /\ conn' = [conn EXCEPT ![c].alive = FALSE]
             /\ UNCHANGED <<trusted, visible, reg, cnt, running, dials, reports, nextId, disturb, shut, intent, auto, ureg>>
\* UnregisterRemoteSKI: trust and attempt counter gone, the registered connection closed
Unregister(h) == /\ Rich /\ disturb < MaxDisturb /\ intent[h] /\ ~shut[h]
                 /\ trusted' = [trusted EXCEPT ![h] = FALSE] /\ intent' = [intent EXCEPT ![h] = FALSE]
                 /\ ureg' = [ureg EXCEPT ![h] = FALSE]
                 /\ LET c == reg[h] IN
                    IF c = 0 THEN cnt' = [cnt EXCEPT ![h] = 3] /\ UNCHANGED <<conn, reg>>
                    ELSE /\ conn' = [CloseExisting(h, conn) EXCEPT ![c].alive = FALSE]
                         /\ reg' = [reg EXCEPT ![h] = 0] /\ cnt' = [cnt EXCEPT ![h] = 3]
                 /\ disturb' = disturb + 1
                 /\ UNCHANGED <<visible, running, dials, reports, nextId, shut, auto>>
\* h loses sight of its peer on mDNS (no report leads to a dial any more)
Disappear(h) == /\ Rich /\ disturb < MaxDisturb /\ visible[h] /\ visible' = [visible EXCEPT ![h] = FALSE]
                /\ disturb' = disturb + 1
                /\ UNCHANGED <<trusted, reg, cnt, running, dials, reports, conn, nextId, shut, intent, auto, ureg>>
\* everything hub h holds is gone and its connections die
Down(h, cs) == [c \in Conns |-> IF cs[c].cl = h \/ cs[c].sv = h
                                 THEN [cs[c] EXCEPT !.alive = FALSE,
                                                    !.cpc = IF cs[c].cl = h /\ @ # "none" THEN "closed" ELSE @,
                                                    !.spc = IF cs[c].sv = h /\ @ # "none" THEN "closed" ELSE @]
                                 ELSE cs[c]]
\* Restart: h comes back at once with the same identity, re-registers what the user had registered and hears the peer's
\* announcement again; the peer sees h's service removed and added
Restart(h) == /\ Rich /\ disturb < MaxDisturb /\ ~shut[h]
              /\ conn' = Down(h, conn)
              /\ reg' = [reg EXCEPT ![h] = 0] /\ cnt' = [cnt EXCEPT ![h] = 3] /\ running' = [running EXCEPT ![h] = FALSE]
              /\ dials' = [dials EXCEPT ![h] = {}]
              /\ reports' = [reports EXCEPT ![h] = IF visible[h] THEN 1 ELSE 0,
                                            ![Other(h)] = IF visible[Other(h)] THEN @ + 2 ELSE @]
              /\ disturb' = disturb + 1
              \* what the user registered is registered again; trust gained through auto accept is not (the application of the
              \* scenario does not persist it)
              /\ trusted' = [trusted EXCEPT ![h] = ureg[h]] /\ intent' = [intent EXCEPT ![h] = ureg[h]]
              /\ UNCHANGED <<visible, nextId, shut, auto, ureg>>
\* Shutdown: h stays down.  As is, Shutdown closes what is registered: a connection h is just setting up goes on
ShutDownConns(h, cs) == [c \in Conns |-> IF ~FixShut /\ ((cs[c].cl = h /\ cs[c].cpc = "dialed") \/ (cs[c].sv = h /\ cs[c].spc = "accepted"))
                                          THEN cs[c] ELSE Down(h, cs)[c]]
Shutdown(h) == /\ Rich /\ disturb < MaxDisturb /\ ~shut[h]
               /\ shut' = [shut EXCEPT ![h] = TRUE]
               /\ conn' = ShutDownConns(h, conn)
               /\ reg' = [reg EXCEPT ![h] = 0] /\ running' = [running EXCEPT ![h] = FALSE] /\ dials' = [dials EXCEPT ![h] = {}]
               /\ reports' = [reports EXCEPT ![h] = 0, ![Other(h)] = IF visible[Other(h)] THEN @ + 1 ELSE @]
               /\ visible' = [visible EXCEPT ![Other(h)] = FALSE]
               /\ disturb' = disturb + 1
               /\ UNCHANGED <<trusted, cnt, nextId, intent, auto, ureg>>

\* CancelPairingWithSKI: trust, the user's word and the attempt counter are gone; the registered connection is asked to
\* abort its handshake - which only takes effect while it waits in its hello phase.  As is (FixCancel = FALSE) a connection
\* in any other state goes on: it completes, or stays completed, although the pairing was cancelled.  The repair ends such
\* a connection like UnregisterRemoteSKI does.
Cancel(h) == /\ Rich2 /\ ~CancelSplit /\ disturb < MaxDisturb /\ ureg[h] /\ ~shut[h]
             /\ trusted' = [trusted EXCEPT ![h] = FALSE] /\ intent' = [intent EXCEPT ![h] = FALSE]
             /\ ureg' = [ureg EXCEPT ![h] = FALSE]
             /\ LET c == reg[h] IN
                IF c = 0 THEN cnt' = [cnt EXCEPT ![h] = 3] /\ UNCHANGED <<conn, reg>>
                ELSE \E inHello \in (IF conn[c].done THEN {FALSE} ELSE BOOLEAN) :
                       IF FixCancel
                       THEN /\ conn' = [CloseExisting(h, conn) EXCEPT ![c].alive = FALSE]
                            /\ reg' = [reg EXCEPT ![h] = 0] /\ cnt' = [cnt EXCEPT ![h] = 3]
                       ELSE /\ conn' = IF inHello THEN [conn EXCEPT ![c].alive = FALSE] ELSE conn
                            /\ cnt' = [cnt EXCEPT ![h] = 3] /\ UNCHANGED reg
             /\ disturb' = disturb + 1
             /\ UNCHANGED <<visible, running, dials, reports, nextId, shut, auto>>
\* The same call as the two steps the code takes, with the library free to act in between (CancelSplit).  What the call does
\* to the connection it finds: CancelConn.  As it was, step 1 looked into the registry (without the registration lock) and
\* step 2 took the trust away; repaired (FixCancelOrder), step 1 takes the trust away and step 2 looks into the registry under
\* the registration lock.  The user's word (intent, ureg) is taken back when the call returns.
CancelConn(h) ==
    LET c == reg[h] IN
    IF c = 0 THEN UNCHANGED <<conn, reg>>
    ELSE \E inHello \in (IF conn[c].done THEN {FALSE} ELSE BOOLEAN) :
           IF FixCancel
           THEN conn' = [CloseExisting(h, conn) EXCEPT ![c].alive = FALSE] /\ reg' = [reg EXCEPT ![h] = 0]
           ELSE conn' = (IF inHello THEN [conn EXCEPT ![c].alive = FALSE] ELSE conn) /\ UNCHANGED reg
Cancel1(h) == /\ Rich2 /\ CancelSplit /\ disturb < MaxDisturb /\ ureg[h] /\ ~shut[h] /\ ~canc[h]
              /\ canc' = [canc EXCEPT ![h] = TRUE] /\ cnt' = [cnt EXCEPT ![h] = 3]
              /\ IF FixCancelOrder THEN trusted' = [trusted EXCEPT ![h] = FALSE] /\ UNCHANGED <<conn, reg>>
                                   ELSE CancelConn(h) /\ UNCHANGED trusted
              /\ UNCHANGED <<visible, running, dials, reports, nextId, disturb, shut, intent, auto, ureg>>
Cancel2(h) == /\ canc[h] /\ canc' = [canc EXCEPT ![h] = FALSE]
              \* (the trust is taken away at the end in both orders: a client connection that reached hello-ok in between had
              \*  set it again)
              /\ trusted' = [trusted EXCEPT ![h] = FALSE]
              /\ IF FixCancelOrder THEN CancelConn(h) ELSE UNCHANGED <<conn, reg>>
              /\ intent' = [intent EXCEPT ![h] = FALSE] /\ ureg' = [ureg EXCEPT ![h] = FALSE]
              /\ disturb' = disturb + 1
              /\ UNCHANGED <<visible, cnt, running, dials, reports, nextId, shut, auto>>
\* SetAutoAccept: the flag, and a new announcement (register = true / false) which the peer's manager reports
SetAuto(h, b) == /\ Rich2 /\ disturb < MaxDisturb /\ ~shut[h] /\ auto[h] # b
                 /\ auto' = [auto EXCEPT ![h] = b]
                 /\ reports' = [reports EXCEPT ![Other(h)] = IF visible[Other(h)] THEN @ + 1 ELSE @]
                 /\ disturb' = disturb + 1
                 /\ UNCHANGED <<trusted, visible, reg, cnt, running, dials, conn, nextId, shut, intent, ureg>>

Lib == \/ \E h \in Hubs : Report(h) \/ \E k \in 0..2 : Prepare(h, k)
       \/ \E c \in Conns : \/ (IF AtomicReg THEN OAtomic(c) \/ SAtomic(c) ELSE OKeep(c) \/ ORunReg(c) \/ SKeep(c) \/ SRunReg(c))
                           \/ Complete(c) \/ Notice(c, "c") \/ Notice(c, "s") \/ Expire(c)
\* an environment step is logged together with whether the library had come to rest before it
LibIdle == ~ENABLED Lib
\* ... and with what the hub's registry held for the peer at that moment (the harness waits for the real hub to get there)
RegState(h) == IF h \notin Hubs THEN "" ELSE IF reg[h] = 0 THEN "none" ELSE IF conn[reg[h]].done THEN "done" ELSE "setup"
\* (a transport cut names the hub that accepted the connection and how far that connection had come)
LogSt(op, h, st) == script' = IF EmitMode = "none" THEN script ELSE Append(script, [op |-> op, h |-> h, quiet |-> LibIdle, st |-> st])
Log(op, h) == script' = IF EmitMode = "none" THEN script ELSE Append(script, [op |-> op, h |-> h, quiet |-> LibIdle, st |-> RegState(h)])
NoCallInProgress == \A h \in Hubs : ~canc[h]
EnvOne == \/ \E h \in Hubs : (Register(h) /\ Log("Register", h)) \/ (Appear(h) /\ Log("Appear", h)) \/ (Disconnect(h) /\ Log("Disconnect", h))
                          \/ (Unregister(h) /\ Log("Unregister", h)) \/ (Disappear(h) /\ Log("Disappear", h))
                          \/ (Restart(h) /\ Log("Restart", h)) \/ (Shutdown(h) /\ Log("Shutdown", h))
                          \/ (Cancel(h) /\ Log("Cancel", h)) \/ (SetAuto(h, TRUE) /\ Log("AutoOn", h)) \/ (SetAuto(h, FALSE) /\ Log("AutoOff", h))
       \/ \E c \in Conns : (Cut(c) /\ LogSt("Cut", conn[c].sv, IF conn[c].done THEN "done" ELSE IF conn[c].spc = "reg" THEN "setup" ELSE "none"))
\* (no other user operation while a CancelPairingWithSKI call is between its steps: the library is what interleaves)
Env == \/ (NoCallInProgress /\ EnvOne /\ UNCHANGED canc)
       \/ \E h \in Hubs : (Cancel1(h) /\ UNCHANGED script) \/ (Cancel2(h) /\ Log("Cancel", h))
Next == (Lib /\ UNCHANGED <<script, canc>>) \/ Env
Spec == Init /\ [][Next]_vars /\ WF_vars(Lib)

\* ------------------------------------------------------------------ properties
Stable == IdWrong = {} /\ \A h \in Hubs : intent[h] /\ visible[h] /\ ~shut[h]
Quiet  == /\ \A h \in Hubs : reports[h] = 0 /\ dials[h] = {} /\ ~canc[h]
          /\ ~ENABLED Lib
Emit == EmitMode = "none" \/ script' = script \/ PrintT(<<"TEST", ToJson(script')>>)
Good(c) == conn[c].alive /\ conn[c].done /\ conn[c].cpc = "reg" /\ conn[c].spc = "reg"
           /\ reg[conn[c].cl] = c /\ reg[conn[c].sv] = c
OneGood == \E c \in Conns : Good(c) /\ \A d \in Conns \ {c} : ~conn[d].alive
\* safety at quiescence (ids not exhausted)
P_C05 == (Stable /\ Quiet /\ nextId <= MaxC) => OneGood
\* no live connection that neither registry knows
NoOrphan == \A c \in Conns : (Quiet /\ conn[c].alive /\ conn[c].cpc = "reg" /\ conn[c].spc = "reg")
                               => (reg[conn[c].cl] = c /\ reg[conn[c].sv] = c)
\* C10 on two hubs: no completed connection while either side does not trust; nothing alive at a hub that was shut down
P_C10_trust == /\ \A h \in Hubs : trusted[h] => intent[h]
               /\ \A c \in Conns : (Quiet /\ Good(c)) => (intent[conn[c].cl] /\ intent[conn[c].sv])
\* C09 on two hubs: with a wrong stored SHIP id on either side no connection is ever completed
P_C09_pin == IdWrong # {} => \A c \in Conns : ~conn[c].done
P_C10_shut  == \A c \in Conns : conn[c].alive => (~shut[conn[c].cl] /\ ~shut[conn[c].sv])
KF_a == \E c \in Conns : conn[c].cpc = "regDead" \/ conn[c].spc = "regDead"
P_C05_modA == ~KF_a => P_C05
NoOrphan_modA == ~KF_a => NoOrphan
====
