---- MODULE MonWs ----
(***************************************************************************)
(* Monitor pass for C12 / C13 over histories recorded from the REAL         *)
(* ws.WebsocketConnection (harness/cmd/wsconn).  The formulas are the        *)
(* observable counterparts of WsConn.tla's P_C12_* / P_C13_* / L_*: they     *)
(* speak about calls (start / end with result), frames the peer received,    *)
(* callbacks into the SHIP layer and the final resource state.  Interval     *)
(* semantics: call a is before call b only if a returned before b started.   *)
(***************************************************************************)
EXTENDS Naturals, Sequences, FiniteSets, TLC, Json
CONSTANT ObsFile
Trace == ndJsonDeserialize(ObsFile)
VARIABLE l

Idx(t) == 1..Len(t.events)
Starts(t) == {i \in Idx(t) : t.events[i].ev = "WriteStart"}
EndOf(t, i) == CHOOSE j \in Idx(t) : j > i /\ t.events[j].ev = "WriteEnd" /\ t.events[j].w = t.events[i].w /\ t.events[j].n = t.events[i].n
HasEnd(t, i) == \E j \in Idx(t) : j > i /\ t.events[j].ev = "WriteEnd" /\ t.events[j].w = t.events[i].w /\ t.events[j].n = t.events[i].n
Res(t, i) == IF HasEnd(t, i) THEN t.events[EndOf(t, i)].res ELSE "hang"
Recvs(t) == {i \in Idx(t) : t.events[i].ev = "PeerRecv"}
RecvOf(t, i) == {j \in Recvs(t) : t.events[j].w = t.events[i].w /\ t.events[j].n = t.events[i].n}
Before(t, a, b) == \/ (t.events[a].w = t.events[b].w /\ a < b)
                   \/ (HasEnd(t, a) /\ EndOf(t, a) < b)
Count(t, name) == Cardinality({i \in Idx(t) : t.events[i].ev = name})
First(t, names) == IF \E i \in Idx(t) : t.events[i].ev \in names
                   THEN CHOOSE i \in Idx(t) : t.events[i].ev \in names /\ \A j \in Idx(t) : t.events[j].ev \in names => i <= j
                   ELSE 0

JudgeC12(t) ==
    LET S   == Starts(t)
        acc == {i \in S : Res(t, i) = "ok"}
        settled == First(t, {"Settled"})
        b1 == {<<"C12", "writer-panic">> : i \in {i \in S : Res(t, i) = "panic"}}
        b2 == {<<"C12", "writer-hang">> : i \in {i \in S : Res(t, i) = "hang"}}
        b3 == {<<"C12", "write-accepted-after-close">> :
                 i \in {i \in acc : settled > 0 /\ i > settled /\ t.events[settled].res = "T"}}
        b4 == {<<"C12", "received-rejected-or-unknown-message">> :
                 j \in {j \in Recvs(t) : ~\E i \in S : t.events[i].w = t.events[j].w /\ t.events[i].n = t.events[j].n /\ Res(t, i) \in {"ok", "hang"}}}
        b5 == {<<"C12", "duplicate-frame">> : i \in {i \in S : Cardinality(RecvOf(t, i)) > 1}}
        b6 == {<<"C12", "gap-or-reorder">> :
                 p \in {p \in acc \X acc : /\ p[1] # p[2] /\ Before(t, p[1], p[2]) /\ RecvOf(t, p[2]) # {}
                                           /\ (RecvOf(t, p[1]) = {} \/ \E x \in RecvOf(t, p[1]), y \in RecvOf(t, p[2]) : x > y)}}
    IN  b1 \cup b2 \cup b3 \cup b4 \cup b5 \cup b6

JudgeC13(t) ==
    LET s     == t.script
        f     == t.final
        fault == s.event \in {"peerClose", "peerEof", "peerSilent"} \/ (s.event = "peerBad" /\ s.k <= 3) \/ f.faultTriggered
        local == s.event \in {"localClose", "localCloseReason", "localCloseLateRead", "localCloseStalled"}
        nrep  == Count(t, "ReportError")
        known == First(t, {"CloseEnd", "ReportError"})
        late  == Cardinality({i \in Idx(t) : t.events[i].ev = "DeliverIn" /\ known > 0 /\ i > known})
        b1 == IF fault /\ nrep = 0 THEN {<<"C13", "loss-not-reported", s.event>>} ELSE {}
        b2 == IF fault /\ ~(f.isClosed /\ f.errNonNil) THEN {<<"C13", "closed-query-without-error", s.event>>} ELSE {}
        b3 == IF local /\ ~fault /\ nrep > 0 THEN {<<"C13", "local-close-reported-as-error", s.place>>} ELSE {}
        b4 == IF late > 1 THEN {<<"C13", "delivery-after-close">>} ELSE {}
        b5 == IF (fault \/ local) /\ (f.readPumpAlive \/ f.writePumpAlive \/ f.netCloseCalls = 0)
              THEN {<<"C13", "pump-or-socket-leak", s.event>>} ELSE {}
        b6 == IF local /\ ~f.isClosed THEN {<<"C13", "not-closed-after-local-close">>} ELSE {}
        \* a frame whose transport read returned to the pump only after the local close had returned is never delivered (the one
        \* tolerated late delivery is a frame the pump already held when the connection was marked closed)
        ce == First(t, {"CloseEnd"})
        b7 == IF s.event = "localCloseLateRead" /\ ce > 0
                 /\ \E i, j \in Idx(t) : ce < i /\ i < j /\ t.events[i].ev = "NetReadReleased" /\ t.events[j].ev = "DeliverIn" /\ t.events[j].n = 7
              THEN {<<"C13", "frame-read-after-the-close-delivered", s.k>>} ELSE {}
        \* a local close comes back, also while the peer reads nothing
        b8 == IF \E i \in Idx(t) : t.events[i].ev = "CloseEnd" /\ t.events[i].res = "hang" THEN {<<"C13", "local-close-does-not-return", s.event>>} ELSE {}
    IN  b1 \cup b2 \cup b3 \cup b4 \cup b5 \cup b6 \cup b7 \cup b8

\* C08, websocket side: a frame a SHIP peer must never send costs at most the connection - the receive loop goes on (the
\* regular frame 9 that follows is delivered) or the connection is closed
JudgeC08(t) ==
    LET s == t.script
        got9 == \E i \in Idx(t) : t.events[i].ev = "DeliverIn" /\ t.events[i].n = 9
    IN  IF s.event = "peerBad" /\ ~got9 /\ ~t.final.isClosed THEN {<<"C08", "receive-loop-blocked-after-odd-frame", s.k>>} ELSE {}

\* C06, websocket side: while the connection stays open nothing handed to it is refused or lost, however slow the transport is
JudgeC06(t) ==
    LET s == t.script
        settled == First(t, {"Settled"})
        S == {i \in Starts(t) : settled = 0 \/ i < settled}
    IN  IF s.event # "slowWrite" THEN {}
        ELSE {<<"C06", "message-refused-on-an-open-connection", Res(t, i)>> : i \in {i \in S : Res(t, i) # "ok"}}
             \cup {<<"C06", "accepted-message-never-reached-the-peer">> : i \in {i \in S : Res(t, i) = "ok" /\ RecvOf(t, i) = {}}}

Init == l = 0
Next == /\ l < Len(Trace)
        /\ l' = l + 1
        /\ LET t == Trace[l + 1]
           IN  \A k \in JudgeC12(t) \cup JudgeC13(t) \cup JudgeC08(t) \cup JudgeC06(t) :
                  PrintT(<<"MON", ToJson([id |-> t.id, i |-> 0, key |-> k, kf |-> {}])>>)
Spec == Init /\ [][Next]_l
Done == TLCGet("stats").diameter = Len(Trace) + 1
====
