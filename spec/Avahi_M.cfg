SPECIFICATION Spec
CONSTANTS MaxDisc = 2
 MaxVer = 3
 MaxWaits = 3
 MaxBrowse = 2
 Defects = {"staleReannounce", "shutdownUndone"}
 EmitMode = "none"
VIEW View
INVARIANT P_C19_fresh
INVARIANT P_C19_afterShutdown
INVARIANT P_C19_shutdownFinal
CHECK_DEADLOCK FALSE
