---- MODULE MdnsMgr ----
(***************************************************************************)
(* mdns/mdns.go: the manager's table of visible services (processMdnsEntry) *)
(* and its asynchronous reports to the hub (one goroutine per change,       *)
(* RequestMdnsEntries).  C17:                                              *)
(*  (a) after every resolver event the table equals Oracle(history): the    *)
(*      services announced with valid mandatory TXT data and not removed    *)
(*      since, each with the union of the usable addresses reported;        *)
(*  (b) once activity stops, the last report processed by the hub equals    *)
(*      the final table - whatever order the report goroutines run in.      *)
(* Design "unordered": every report is an independent goroutine (unchanged  *)
(* tree).  Design "versioned": a report is dropped if a newer snapshot was  *)
(* already delivered (the repair).                                          *)
(***************************************************************************)
EXTENDS MdnsOracle, Json
CONSTANTS Services, MaxEvents, Design, EmitMode

VARIABLES entries, nev, pending, nextVer, lastVer, lastDelivered, delivered, script
vars == <<entries, nev, pending, nextVer, lastVer, lastDelivered, delivered, script>>

Init == /\ entries = Empty /\ nev = 0 /\ pending = {} /\ nextVer = 1 /\ lastVer = 0
        /\ lastDelivered = Empty /\ delivered = 0 /\ script = <<>>

\* processMdnsEntry as implemented: mandatory elements, txtvers, own SKI, boolean register, link-local filter,
\* remove / merge / new; a report goroutine with a snapshot is spawned iff the table changed
\* The resolver hands over an address LIST: rep = how often the list repeats every address, rev = listed in descending order.
\* Neither matters for the table (a set per service) - which is the point: the real table must not show duplicates either.
Resolve(s, txt, addrs, remove, rep, rev) ==
    /\ nev < MaxEvents
    /\ LET e   == [s |-> s, txt |-> txt, addrs |-> addrs, remove |-> remove, rep |-> rep, rev |-> rev]
           new == ApplyEv(entries, e)
           upd == \/ (ValidTxt(txt) /\ remove /\ s \in DOMAIN entries)
                  \/ (ValidTxt(txt) /\ ~remove /\ s \notin DOMAIN entries)
                  \/ (ValidTxt(txt) /\ ~remove /\ s \in DOMAIN entries /\ new[s] # entries[s])
       IN  /\ entries' = new
           /\ nev' = nev + 1
           /\ script' = IF EmitMode = "none" THEN script ELSE Append(script, [op |-> "Resolve", e |-> e, report |-> upd])
           /\ IF upd THEN /\ pending' = pending \cup {[ver |-> nextVer, snap |-> new]} /\ nextVer' = nextVer + 1
                     ELSE UNCHANGED <<pending, nextVer>>
    /\ UNCHANGED <<lastVer, lastDelivered, delivered>>

\* a report goroutine gets to run: any pending one
Deliver(r) ==
    /\ r \in pending
    /\ pending' = pending \ {r}
    /\ IF Design = "versioned" /\ r.ver < lastVer
       THEN UNCHANGED <<lastVer, lastDelivered, delivered>>          \* a newer snapshot was already reported: dropped
       ELSE lastVer' = r.ver /\ lastDelivered' = r.snap /\ delivered' = delivered + 1
    /\ script' = IF EmitMode = "none" THEN script ELSE Append(script, [op |-> "Deliver", ver |-> r.ver])
    /\ UNCHANGED <<entries, nev, nextVer>>

\* (the sequence has duplicates on purpose: it weights the simulator's choice towards valid records)
TxtWeighted == <<"valid", "valid", "valid", "valid", "validBadCat", "validBadCat", "noVers", "vers2", "noId", "noPath", "noSki", "ownSki", "regNotBool">>
Next == \/ \E s \in Services, i \in 1..Len(TxtWeighted), addrs \in SUBSET Addrs, remove \in BOOLEAN, rep \in 1..2, rev \in BOOLEAN :
              /\ (remove => addrs = {})
              /\ (addrs = {} => rep = 1) /\ (Cardinality(addrs) < 2 => ~rev)
              /\ Resolve(s, TxtWeighted[i], addrs, remove, rep, rev)
        \/ \E r \in pending : Deliver(r)
Spec == Init /\ [][Next]_vars /\ WF_vars(\E r \in pending : Deliver(r))

\* (a) holds on the model by construction (the model's table IS ApplyEv folded over the events); it is decided on the
\*     real code by the monitor pass, which folds OracleF over the recorded events
\* (b) as a state predicate: when nothing is pending any more, the last processed report is the table
Inv_C17b == (pending = {} /\ delivered > 0) => lastDelivered = entries
Quiet == pending = {} /\ nev = MaxEvents

Emit == EmitMode = "none" \/ ~Quiet' \/ PrintT(<<"TEST", ToJson(script')>>)
View == <<entries, pending, nextVer, lastVer, lastDelivered, delivered, nev>>
====
