---- MODULE SmeProps ----
(***************************************************************************)
(* The property formulas of the SHIP message-exchange layer, written ONCE  *)
(* over observables: the ordered event log one environment action produced *)
(* (reports, frames, close calls, closed reports, setup, SHIP-id report,    *)
(* payload deliveries) plus a few scalars.  The same operators are used     *)
(*   - by ShipSme.tla (the model): the model's own event log is judged and  *)
(*     `viol` must stay within the known findings (INVARIANT), and          *)
(*   - by MonSme.tla (the monitor pass): event logs recorded from the REAL  *)
(*     ship.ShipConnection are judged; only that pass yields VIOLATION.     *)
(* Properties: C01 C04 C06 C08 C09 C11 (connection level), C03 (pair).      *)
(***************************************************************************)
EXTENDS Naturals, Sequences, FiniteSets, TLC

Terminal  == {"Error", "AbortDone", "RemoteAbortDone", "Rejected"}
(* reports that are not progress of the handshake: the terminal outcomes and the entry into the abort exit *)
NoProgress == Terminal \cup {"Abort"}
PostHello == {"HelloOk", "ServerInit", "ClientInit", "ServerListenProposal", "ServerListenConfirm",
              "ClientListenChoice", "ClientOk", "ServerOk", "PinCheckInit", "PinCheckListen",
              "PinCheckOk", "AccessMethodsRequest", "Approved", "Complete"}

(* SHIP 1.0.1 13.4.3 - 13.4.6 as a set of allowed (from, to) pairs of REPORTED states *)
Chain(seq) == {<<seq[i], seq[i + 1]>> : i \in 1..(Len(seq) - 1)}
Common == Chain(<<"ReadyInit", "ReadyListen", "HelloOk">>) \cup
          Chain(<<"PinCheckInit", "PinCheckListen", "PinCheckOk", "AccessMethodsRequest", "Approved", "Complete">>) \cup
          {<<"ReadyInit", "Abort">>, <<"ReadyListen", "Abort">>, <<"PendingListen", "Abort">>, <<"Abort", "AbortDone">>,
           <<"ReadyListen", "RemoteAbortDone">>, <<"PendingListen", "RemoteAbortDone">>, <<"ReadyListen", "Rejected">>}
GraphC == Common \cup Chain(<<"InitStart", "ClientSend", "ClientWait", "ClientEvaluate", "Hello", "ReadyInit">>) \cup
          Chain(<<"HelloOk", "ClientInit", "ClientListenChoice", "ClientOk", "PinCheckInit">>)
GraphS == Common \cup Chain(<<"InitStart", "ServerWait", "ServerEvaluate", "Hello", "ReadyInit">>) \cup
          Chain(<<"Hello", "PendingInit", "PendingListen", "ReadyInit">>) \cup
          Chain(<<"HelloOk", "ServerInit", "ServerListenProposal", "ServerListenConfirm", "ServerOk", "PinCheckInit">>)
Graph(role) == IF role = "client" THEN GraphC ELSE GraphS
(* every state may end in Error; Error -> Error is a repeated report *)
Allowed(role, a, b) == <<a, b>> \in Graph(role) \/ b = "Error"

(* event kinds: rep, sent (handshake control frame), sentclose (connectionClose frame), sentdata (SPINE data   *)
(* frame), close (CloseDataConnection call), closed (HandleConnectionClosed), setup, id, deliver; every v is a  *)
(* string                                                                                                       *)
(* a "Par" step: two entry points of the connection called at the same time - act = [a |-> "Par", c1, c2] with            *)
(* ci = [k, m, id]: k in Inject / Timeout / Approve / Cancel / Close / ConnErr; an Inject is always c1                     *)
IsPar(act) == act.a = "Par"
HasCall(act, k) == IsPar(act) /\ (act.c1.k = k \/ act.c2.k = k)
Approves(act) == act.a = "Approve" \/ HasCall(act, "Approve")
InjectsData(act) == \/ (act.a \in {"Inject", "Deliver"} /\ act.m = "data")
                    \/ (IsPar(act) /\ act.c1.k = "Inject" /\ act.c1.m = "data")
ActId(act) == IF IsPar(act) THEN (IF act.c1.k = "Inject" THEN act.c1.id ELSE "") ELSE act.id
ActM(act)  == IF IsPar(act) THEN act.c1.k \o "+" \o act.c2.k ELSE act.m

(* accumulator carried along one connection's history *)
Acc0(role, trusted) ==
    [ last |-> "InitStart", term |-> FALSE, closed |-> FALSE, trust |-> (trusted \/ role = "client"),
      nClosed |-> 0, nSetup |-> 0, nIds |-> 0, compl |-> FALSE, inj |-> <<>>, del |-> <<>>, dead |-> FALSE,
      asked |-> FALSE ]    \* asked: CloseConnection was called on the connection (by the user, the hub, or the library itself)

Cap2(n) == IF n >= 2 THEN 2 ELSE n

(* one event; returns [acc, bad] *)
OnEvent(role, stored, act, a, e, bad) ==
    CASE e.k = "rep" ->
            LET S  == e.v
                b1 == IF ~Allowed(role, a.last, S) THEN bad \cup {<<"C04", "edge-not-in-graph", a.last, S>>} ELSE bad
                b2 == IF a.term /\ S \notin NoProgress THEN b1 \cup {<<"C04", "progress-after-terminal", a.last, S>>} ELSE b1
                b3 == IF a.closed /\ ~a.term /\ S \notin NoProgress THEN b2 \cup {<<"C04", "progress-after-close", a.last, S>>} ELSE b2
                b4 == IF S \in PostHello /\ ~a.trust THEN b3 \cup {<<"C01", "posthello-untrusted", a.last, S>>} ELSE b3
            IN  [acc |-> [a EXCEPT !.last = S, !.term = @ \/ S \in Terminal, !.compl = @ \/ S = "Complete"], bad |-> b4]
      [] e.k = "sent" ->
            LET b1 == IF a.term \/ a.closed
                      THEN bad \cup {<<"C04", "sent-after-final", a.last, e.v>>} ELSE bad
            IN  [acc |-> a, bad |-> b1]
      [] e.k = "sentclose" -> [acc |-> [a EXCEPT !.closed = @ \/ e.v = "close.announce"], bad |-> bad]
      [] e.k = "sentdata" -> [acc |-> a, bad |-> bad]
      [] e.k = "close" -> [acc |-> [a EXCEPT !.closed = TRUE], bad |-> bad]
      [] e.k = "closed" ->
            LET b1 == IF a.nClosed >= 1 THEN bad \cup {<<"C11", "closed-reported-twice", a.last, act.a>>} ELSE bad
            IN  [acc |-> [a EXCEPT !.closed = TRUE, !.nClosed = Cap2(@ + 1)], bad |-> b1]
      [] e.k = "setup" ->
            LET b1 == IF ~a.trust THEN bad \cup {<<"C01", "setup-untrusted", a.last>>} ELSE bad
                b2 == IF a.nSetup >= 1 THEN b1 \cup {<<"C03", "setup-twice", a.last>>} ELSE b1
                b3 == IF stored # "none" /\ ActId(act) # stored
                      THEN b2 \cup {<<"C09", "setup-on-id-mismatch", stored, ActId(act)>>} ELSE b2
                b4 == IF stored = "none" /\ a.nIds # 1
                      THEN b3 \cup {<<"C09", "setup-without-single-id-report", a.nIds>>} ELSE b3
            IN  [acc |-> [a EXCEPT !.nSetup = Cap2(@ + 1)], bad |-> b4]
      [] e.k = "id" ->
            LET b1 == IF a.nIds >= 1 THEN bad \cup {<<"C09", "id-reported-twice", e.v>>} ELSE bad
                b2 == IF e.v # ActId(act) THEN b1 \cup {<<"C09", "reported-id-not-presented-id", e.v, ActId(act)>>} ELSE b1
                b3 == IF a.nSetup >= 1 THEN b2 \cup {<<"C09", "id-reported-after-setup", e.v>>} ELSE b2
            IN  [acc |-> [a EXCEPT !.nIds = Cap2(@ + 1)], bad |-> b3]
      [] e.k = "deliver" ->
            LET b1 == IF ~a.trust THEN bad \cup {<<"C01", "payload-untrusted", a.last>>} ELSE bad
                b2 == IF ~a.compl THEN b1 \cup {<<"C06", "payload-before-complete", a.last>>} ELSE b1
                k  == Len(a.del) + 1
                b3 == IF k > Len(a.inj) \/ a.inj[k] # e.v
                      THEN b2 \cup {<<"C06", "payload-order-or-duplicate", e.v>>} ELSE b2
            IN  [acc |-> [a EXCEPT !.del = Append(@, e.v)], bad |-> b3]
      [] OTHER -> [acc |-> a, bad |-> bad \cup {<<"INFRA", "unknown-event", e.k>>}]

RECURSIVE Walk(_, _, _, _, _, _)
Walk(role, stored, act, a, evs, bad) ==
    IF evs = <<>> THEN [acc |-> a, bad |-> bad]
    ELSE LET r == OnEvent(role, stored, act, a, Head(evs), bad)
         IN  Walk(role, stored, act, r.acc, Tail(evs), r.bad)

(* act: [a, m, id]; ob: [st, tRun, wsOpen, buf, ev, panicked, hung]                                *)
(* returns [acc, bad] after one environment action                                              *)
JudgeStep(role, stored, act, acc, ob) ==
    LET a0 == [acc EXCEPT !.trust = @ \/ Approves(act), !.asked = @ \/ act.a = "Close" \/ HasCall(act, "Close"),
                          !.inj = IF InjectsData(act) THEN Append(@, ActId(act)) ELSE @]
        w  == Walk(role, stored, act, a0, ob.ev, {})
        a1 == [w.acc EXCEPT !.dead = @ \/ ob.panicked \/ ob.hung]
        b1 == IF ob.st \in PostHello /\ ~a1.trust THEN w.bad \cup {<<"C01", "posthello-untrusted-state", ob.st>>} ELSE w.bad
        b2 == IF (a1.term \/ a1.closed) /\ ob.tRun THEN b1 \cup {<<"C04", "timer-armed-after-final", a1.last, ob.st>>} ELSE b1
        b3 == IF ob.panicked THEN b2 \cup {<<"C08", "panic", acc.last, act.a, ActM(act)>>} ELSE b2
        b4 == IF ob.hung THEN b3 \cup {<<"C08", "hang", acc.last, act.a, ActM(act)>>} ELSE b3
        b5 == IF ~ob.panicked /\ ~ob.hung /\ a1.compl /\ ob.wsOpen /\ ~a1.closed /\ a1.del # a1.inj
              THEN b4 \cup {<<"C06", "payload-not-delivered", Len(a1.del), Len(a1.inj)>>} ELSE b4
        b6 == IF act.a = "Sleep" /\ ~ob.wsOpen /\ a1.nClosed = 0 /\ ~a1.dead
              THEN b5 \cup {<<"C11", "end-not-reported", a1.last, act.a>>} ELSE b5
        b7 == IF act.a = "Sleep" /\ a1.term /\ ob.wsOpen THEN b6 \cup {<<"C04", "transport-not-closed", a1.last>>} ELSE b6
        \* a datagram that arrived before completion is held back (ob.buf = length of the pre-completion buffer) - as long as
        \* the connection has not ended: a connection that ended in an error or was closed need not keep anything
        b8 == IF ~a1.dead /\ ~a1.compl /\ ~a1.term /\ ~a1.closed /\ ob.wsOpen /\ ob.buf # Len(a1.inj) - Len(a1.del)
              THEN b7 \cup {<<"C06", "datagram-not-held-back", a1.last, act.a>>} ELSE b7
        \* a connection somebody closed gets its transport closed (at the latest by the delayed goroutine of a graceful close)
        b9 == IF act.a = "Sleep" /\ a1.asked /\ ob.wsOpen /\ ~a1.dead
              THEN b8 \cup {<<"C04", "transport-not-closed-after-close-call", a1.last>>} ELSE b8
    IN  [acc |-> a1, bad |-> b9]

(*************************** C03: two endpoints, judged at quiescence *******************)
(* c, s: [st, wsOpen, nSetup, idOk, nClosed]; q.trustGiven: the server side trusted the client beforehand, through auto-accept,   *)
(* or by an approval given before or while the request was pending, and did not cancel; q.trustAny: trusted at any time *)
BothCompleteOpen(c, s) == c.st = "Complete" /\ s.st = "Complete" /\ c.wsOpen /\ s.wsOpen /\ c.nSetup = 1 /\ s.nSetup = 1
NeitherComplete(c, s)  == c.nSetup = 0 /\ s.nSetup = 0
\* a side has ended when its transport is closed AND it said so (a side that still calls itself complete on a dead transport,
\* and never reports its end, has not ended)
BothEnded(c, s)        == ~c.wsOpen /\ ~s.wsOpen /\ c.nClosed >= 1 /\ s.nClosed >= 1
JudgePair(c, s, q) ==
    LET b1 == IF ~(BothCompleteOpen(c, s) \/ (BothEnded(c, s)))
              THEN {<<"C03", "disagree-at-quiescence", c.st, s.st>>} ELSE {}
        b2 == IF q.timely /\ q.trustGiven /\ q.idsCompatible /\ q.faultFree /\ ~q.userClosed /\ ~BothCompleteOpen(c, s)
              THEN b1 \cup {<<"C03", "trusted-but-not-both-complete", c.st, s.st>>} ELSE b1
        b3 == IF ~q.trustAny /\ ~NeitherComplete(c, s)
              THEN b2 \cup {<<"C03", "untrusted-but-complete", c.st, s.st>>} ELSE b2
        b4 == IF BothCompleteOpen(c, s) /\ ~(c.idOk /\ s.idOk)
              THEN b3 \cup {<<"C03", "complete-without-learning-ship-id", c.st, s.st>>} ELSE b3
    IN  b4
====
