---- MODULE MonSme ----
(***************************************************************************)
(* Monitor pass over observation traces recorded from the REAL             *)
(* ship.ShipConnection (harness/cmd/sme).  It only loads what the real     *)
(* code did and evaluates the shared formulas of SmeProps on it; it cannot *)
(* get stuck, so every step of every trace is judged.  A failing formula   *)
(* does not stop TLC: it prints one MON line per violation key, which the  *)
(* orchestrator classifies against known_findings.txt.  Only this pass     *)
(* produces VIOLATION for C01 C03 C04 C06 C08 C09 C11 (connection level).  *)
(***************************************************************************)
EXTENDS Naturals, Sequences, FiniteSets, TLC, Json, SmeProps

CONSTANT ObsFile
Trace == ndJsonDeserialize(ObsFile)

VARIABLE l

StoredOf(t, e) == IF e = "c" THEN t.cfg.storedC ELSE t.cfg.stored
TrustedOf(t, e) == IF e = "c" THEN TRUE ELSE (t.cfg.paired \/ t.cfg.auto)

HelloFrames == {"hello.ready.ge30.absent", "hello.pending.ge30.absent", "hello.pending.absent.true",
                "hello.ready.mid.absent", "hello.ready.lt1.absent", "hello.ready.absent.absent"}

HasRep(ob, S) == \E i \in 1..Len(ob.ev) : ob.ev[i].k = "rep" /\ ob.ev[i].v = S

\* trace-level facts the pair judgement needs, gathered while walking the steps
Flags0 == [approvedPending |-> FALSE, approvedAny |-> FALSE, cancelled |-> FALSE, faults |-> FALSE, userClosed |-> FALSE, lateHello |-> FALSE]
FlagsAfter(f, s, accE) ==
    [ approvedPending |-> f.approvedPending \/ (s.a.a = "Approve" /\ accE.last \in {"InitStart", "ServerWait", "PendingListen"}),
      approvedAny     |-> f.approvedAny \/ Approves(s.a),
      cancelled       |-> f.cancelled \/ (s.a.a = "Cancel" /\ HasRep(s.ob, "Abort")),
      faults          |-> f.faults \/ s.a.a \in {"ArmWriteFailure", "WsFail"},
      userClosed      |-> f.userClosed \/ s.a.a = "Close",
      lateHello       |-> f.lateHello \/ (s.a.a = "Deliver" /\ s.a.m \in HelloFrames /\ accE.last \in PostHello) ]

RECURSIVE Fold(_, _, _, _, _)
Fold(t, i, accs, flags, bad) ==
    IF i > Len(t.steps) THEN [accs |-> accs, flags |-> flags, bad |-> bad]
    ELSE LET s == t.steps[i]
             e == s.e
             r == JudgeStep(t.roles[e], StoredOf(t, e), s.a, accs[e], s.ob)
         IN  Fold(t, i + 1, [accs EXCEPT ![e] = r.acc], FlagsAfter(flags, s, accs[e]),
                  bad \cup {[i |-> i, key |-> k] : k \in r.bad})

PairOb(p, a) == [st |-> p.st, wsOpen |-> p.wsOpen, nSetup |-> a.nSetup, idOk |-> p.idOk, nClosed |-> a.nClosed]

JudgeTrace(t) ==
    LET eps == DOMAIN t.roles
        f   == Fold(t, 1, [e \in eps |-> Acc0(t.roles[e], TrustedOf(t, e))], Flags0, {})
        pb  == IF t.cfg.pair /\ t.pairEnd.quiesced
               THEN LET q == [ timely |-> t.cfg.timely,
                               trustGiven |-> ~f.flags.cancelled /\ (t.cfg.paired \/ t.cfg.auto \/ f.flags.approvedPending),
                               trustAny |-> t.cfg.paired \/ t.cfg.auto \/ f.flags.approvedAny,
                               idsCompatible |-> (t.cfg.stored \in {"none", "A"}) /\ (t.cfg.storedC \in {"none", "B"}),
                               faultFree |-> ~f.flags.faults, userClosed |-> f.flags.userClosed ]
                    IN  {[i |-> Len(t.steps), key |-> k] : k \in JudgePair(PairOb(t.pairEnd.c, f.accs["c"]), PairOb(t.pairEnd.s, f.accs["s"]), q)}
               ELSE {}
        kf  == (IF f.flags.approvedPending /\ f.flags.lateHello THEN {"approve-before-hello"} ELSE {})
               \cup (IF \E i \in 1..Len(t.steps) : t.steps[i].a.a = "Par" THEN {"par"} ELSE {})
    IN  [bad |-> f.bad \cup pb, kf |-> kf]

Init == l = 0
Next == /\ l < Len(Trace)
        /\ l' = l + 1
        /\ LET t == Trace[l + 1]
               j == JudgeTrace(t)
           IN  \A b \in j.bad : PrintT(<<"MON", ToJson([id |-> t.id, cfg |-> t.cfg.name, i |-> b.i, key |-> b.key, kf |-> j.kf])>>)
Spec == Init /\ [][Next]_l
Done == TLCGet("stats").diameter = Len(Trace) + 1
====
