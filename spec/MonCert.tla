---- MODULE MonCert ----
(* Monitor pass for C02: Judge of CertGate.tla on what the real hub / certificate generator did for every row *)
EXTENDS CertGate
CONSTANT ObsFile
Trace == ndJsonDeserialize(ObsFile)
VARIABLE l
MInit == l = 0
MNext == /\ l < Len(Trace)
         /\ l' = l + 1
         /\ LET t == Trace[l + 1]
            IN  \A k \in Judge(t.row, t.res) : PrintT(<<"MON", ToJson([id |-> t.id, i |-> 0, key |-> k, kf |-> {}])>>)
Done == TLCGet("stats").diameter = Len(Trace) + 1
====
