---- MODULE TimerGen ----
(***************************************************************************)
(* Generator of arm / stop / re-arm scripts for the C14 conformance run.   *)
(* It is AbsTimer (the timer C14 demands) driven by an environment that    *)
(* chooses, for every operation, whether it comes immediately after the    *)
(* previous one (before a freshly spawned timer goroutine can have reached *)
(* its select) or a little later (the goroutine certainly waits) - both     *)
(* "well before expiry".  Expire lets the armed timer run out.  After a     *)
(* timeout the connection itself arms a 60 s timer ("auto"), which the     *)
(* next operation stops or replaces.  Every complete script is printed     *)
(* with the number of timeouts AbsTimer allows after each operation.       *)
(***************************************************************************)
EXTENDS Naturals, Sequences, TLC, Json
CONSTANT MaxOps
VARIABLES armed, nfires, ops
vars == <<armed, nfires, ops>>
Durs == {"short", "long"}
Gaps == {"now", "soon"}
Init == armed = "none" /\ nfires = 0 /\ ops = <<>>
Op(o, d, g) == [op |-> o, dur |-> d, gap |-> g, fires |-> nfires']
Arm(d, g) == /\ armed' = d /\ nfires' = nfires /\ ops' = Append(ops, Op("Arm", d, g))
\* two goroutines arm at the same time (a short and a long timer): whichever is published last is the armed one
ArmPar(g) == /\ armed' = "par" /\ nfires' = nfires /\ ops' = Append(ops, Op("ArmPar", "par", g))
Stop(g)   == /\ armed' = "none" /\ nfires' = nfires /\ ops' = Append(ops, Op("Stop", "", g))
Expire    == /\ armed \in Durs \cup {"par"} /\ armed' = "auto" /\ nfires' = nfires + 1 /\ ops' = Append(ops, Op("Expire", armed, ""))
Next == /\ Len(ops) < MaxOps
        /\ \/ \E d \in Durs, g \in Gaps : Arm(d, g)
           \/ \E g \in Gaps : Stop(g)
           \/ \E g \in Gaps : ArmPar(g)
           \/ Expire
Spec == Init /\ [][Next]_vars
Emit == Len(ops') < MaxOps \/ PrintT(<<"TEST", ToJson(ops')>>)
====
