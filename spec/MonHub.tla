---- MODULE MonHub ----
(***************************************************************************)
(* Monitor pass over observations of the REAL hub.Hub (harness/cmd/hubapi).*)
(* Every behaviour was executed twice, with canonical and with re-spelled  *)
(* SKIs.  Formulas:                                                        *)
(*  C15  the two runs are indistinguishable step by step                   *)
(*  C01  the hub holds a service trusted only on the user's word            *)
(*  C10  dial only with user intent, never after Shutdown; unregister       *)
(*       closes the registered connection and clears trust; cancel aborts   *)
(*  C11  the end of a connection object removes exactly its own registry    *)
(*       entry; the last set-up / disconnect notification matches the       *)
(*       registry                                                           *)
(*  C18  delayed pairing-state notifications arrive in store order and the  *)
(*       last one shows the state the hub itself answers                    *)
(***************************************************************************)
EXTENDS Integers, Sequences, FiniteSets, TLC, Json
CONSTANT ObsFile
Trace == ndJsonDeserialize(ObsFile)
VARIABLE l
Skis == {"r1", "r2"}

Has(out, s) == \E j \in 1..Len(out) : out[j] = s
PreSvc(run, i, k) == IF i = 1 THEN [trusted |-> FALSE, paired |-> FALSE, dstate |-> "None", derr |-> FALSE, reg |-> 0, cnt |-> -1] ELSE run.steps[i - 1].svc[k]

\* ghost facts derived from the actions alone
NewConnSteps(run) == SelectSeq([i \in 1..Len(run.steps) |-> i], LAMBDA i : run.steps[i].a.a \in {"NewConn", "ClosedRe"})
SkiOfConn(run, j) == run.steps[NewConnSteps(run)[j]].a.k
Intent(run, i, k) ==    \* user intent for k before step i: registered (or trust earned in a handshake) and not unregistered / cancelled since
    LET idx == {j \in 1..(i - 1) :
                  \/ (run.steps[j].a.a \in {"Register", "Unregister", "Cancel"} /\ run.steps[j].a.k = k)
                  \/ (run.steps[j].a.a = "StateUpdate" /\ run.steps[j].a.s = "HelloOk" /\ SkiOfConn(run, run.steps[j].a.i) = k)}
    IN  idx # {} /\ LET m == CHOOSE j \in idx : \A j2 \in idx : j2 <= j IN run.steps[m].a.a \in {"Register", "StateUpdate"}
ShutBefore(run, i) == \E j \in 1..(i - 1) : run.steps[j].a.a = "Shutdown"

\* the handshake state connection object c was in before step i: its latest StateUpdate, else the state it was created in
ConnSt(run, i, c) ==
    LET ups == {j \in 1..(i - 1) : run.steps[j].a.a = "StateUpdate" /\ run.steps[j].a.i = c}
    IN  IF ups = {} THEN run.steps[NewConnSteps(run)[c]].a.s
        ELSE run.steps[CHOOSE j \in ups : \A j2 \in ups : j2 <= j].a.s

ConnStr(j, c) == "conn" \o ToString(j) \o "." \o c

JudgeStep(run, i) ==
    LET s == run.steps[i]
        a == s.a
        dials == {k \in Skis : Has(s.out, "dial:" \o k)}
        b1 == {<<"C10", "dial-without-user-intent", k>> : k \in {k \in dials : ~Intent(run, i, k)}}
        b2 == {<<"C10", "dial-after-shutdown", k>> : k \in {k \in dials : ShutBefore(run, i)}}
        b3 == IF a.a = "Unregister"
              THEN (IF PreSvc(run, i, a.k).reg # 0 /\ ~Has(s.out, ConnStr(PreSvc(run, i, a.k).reg, "Close:safe:4500"))
                    THEN {<<"C10", "unregister-left-connection-open">>} ELSE {})
                   \cup (IF s.svc[a.k].trusted THEN {<<"C10", "unregister-left-trusted">>} ELSE {})
              ELSE {}
        b4 == IF a.a = "Cancel"
              THEN (IF PreSvc(run, i, a.k).reg # 0 /\ ~Has(s.out, ConnStr(PreSvc(run, i, a.k).reg, "Abort"))
                    THEN {<<"C10", "cancel-did-not-abort">>} ELSE {})
                   \* a connection that cannot be aborted (it is not, or no longer, waiting in its hello phase) must not go on
                   \cup (IF PreSvc(run, i, a.k).reg # 0 /\ ConnSt(run, i, PreSvc(run, i, a.k).reg) \notin {"AbortDone", "RemoteAbortDone", "Error", "ReadyListen", "PendingListen"}
                            /\ ~Has(s.out, ConnStr(PreSvc(run, i, a.k).reg, "Close:safe:4500"))
                         THEN {<<"C10", "cancel-left-a-connection-that-cannot-be-aborted">>} ELSE {})
                   \cup (IF s.svc[a.k].trusted THEN {<<"C10", "cancel-left-trusted">>} ELSE {})
              ELSE {}
        b5 == IF a.a = "Closed"
              THEN LET k == SkiOfConn(run, a.i)
                       pre == PreSvc(run, i, k).reg
                   IN  (IF pre # 0 /\ pre # a.i /\ s.svc[k].reg # pre THEN {<<"C11", "newer-registry-entry-dropped">>} ELSE {})
                       \cup (IF pre = a.i /\ s.svc[k].reg # 0 THEN {<<"C11", "closed-connection-still-registered">>} ELSE {})
                       \cup (IF pre # 0 /\ pre # a.i /\ Has(s.out, "Disconnected:" \o k)
                             THEN {<<"C11", "disconnect-notified-for-stale-connection">>} ELSE {})
              ELSE {}
        \* a connection registered while the application was being told about the end of its predecessor stays registered
        b7 == IF a.a = "ClosedRe" /\ s.svc[a.k].reg = 0 THEN {<<"C11", "newer-registry-entry-dropped", "during-the-disconnect-notification">>} ELSE {}
        \* C01 at the hub: whatever happened, the hub calls a service trusted (and answers its connections 'paired') only while
        \* the user's last word for it is Register, or trust was earned in a handshake after that
        b6 == {<<"C01", "hub-trusts-a-service-without-the-users-word", k, a.a>> : k \in {k \in Skis : (s.svc[k].trusted \/ s.svc[k].paired) /\ ~Intent(run, i + 1, k)}}
    IN  b1 \cup b2 \cup b3 \cup b4 \cup b5 \cup b6 \cup b7

\* the last set-up / disconnect notification of k in the whole run: "Setup", "Disconnected" or "none"
LastWord(run, k) ==
    LET idx == {i \in 1..Len(run.steps) : Has(run.steps[i].out, "Setup:" \o k) \/ Has(run.steps[i].out, "Disconnected:" \o k)}
    IN  IF idx = {} THEN "none"
        ELSE LET m == CHOOSE i \in idx : \A j \in idx : j <= i
             IN  IF Has(run.steps[m].out, "Disconnected:" \o k) THEN "Disconnected" ELSE "Setup"
SetUp(run, j) == \E i \in 1..Len(run.steps) : run.steps[i].a.a = "Setup" /\ run.steps[i].a.i = j
Ended(run, j) == \E i \in 1..Len(run.steps) : run.steps[i].a.a = "Closed" /\ run.steps[i].a.i = j
JudgeEnd(run) ==
    IF Len(run.steps) = 0 THEN {}
    ELSE LET fin == run.steps[Len(run.steps)].svc
             b1 == {<<"C11", "disconnected-is-last-word-while-set-up-connection-registered", k>> :
                      k \in {k \in Skis : LastWord(run, k) = "Disconnected" /\ fin[k].reg # 0 /\ SetUp(run, fin[k].reg)}}
             \* ("after things settle": a connection object that set the device up and has not ended yet - e.g. one replaced in the
             \*  registry whose close is still under way - will still say its last word)
             b2 == {<<"C11", "setup-is-last-word-while-nothing-registered", k>> :
                      k \in {k \in Skis : LastWord(run, k) = "Setup" /\ fin[k].reg = 0
                                           /\ \A j \in 1..Len(NewConnSteps(run)) : (SkiOfConn(run, j) = k /\ SetUp(run, j)) => Ended(run, j)}}
         IN  b1 \cup b2

\* C18: delayed notifications.  stored: details in store order; late: delivery order; both carry the detail's identity
StoreIdx(run, p) == IF \E j \in 1..Len(run.stored) : run.stored[j].ptr = p
                    THEN CHOOSE j \in 1..Len(run.stored) : run.stored[j].ptr = p /\ \A j2 \in 1..Len(run.stored) : run.stored[j2].ptr = p => j2 <= j
                    ELSE 0
NConnOf(run, k) == Cardinality({j \in 1..Len(NewConnSteps(run)) : SkiOfConn(run, j) = k})
JudgeC18(run) ==
    LET L == run.late
        b1 == {<<"C18", "older-state-delivered-after-newer", L[p[1]].ski>> :
                 p \in {p \in (1..Len(L)) \X (1..Len(L)) : p[1] < p[2] /\ L[p[1]].ski = L[p[2]].ski
                                                           /\ StoreIdx(run, L[p[1]].ptr) > StoreIdx(run, L[p[2]].ptr)}}
        lastOf(k) == LET idx == {i \in 1..Len(L) : L[i].ski = k} IN IF idx = {} THEN "" ELSE L[CHOOSE i \in idx : \A j \in idx : j <= i].state
        \* the registered connection of k (if any) has itself reported its current state: the attempt ran to a stable point
        finReg(k) == run.steps[Len(run.steps)].svc[k].reg
        upd(k) == {i \in 1..Len(run.steps) : run.steps[i].a.a = "StateUpdate" /\ SkiOfConn(run, run.steps[i].a.i) = k}
        stablePoint(k) == finReg(k) = 0 \/ \E i \in upd(k) : run.steps[i].a.i = finReg(k)
        b2 == {<<"C18", "last-notification-not-current-state", k, lastOf(k), run.final[k]>> :
                 \* (a service whose details were stored and that got no notification at all has "" as its last one)
                 k \in {k \in Skis : (lastOf(k) # "" \/ \E j \in 1..Len(run.stored) : run.stored[j].ski = k) /\ Len(run.steps) > 0 /\ stablePoint(k) /\ lastOf(k) # run.final[k]
                                     /\ (NConnOf(run, k) = 1 \/ finReg(k) # 0)
                                     /\ \A i \in 1..Len(run.steps) :       \* no synchronous note for k after the last stored detail
                                           ~(run.steps[i].a.a \in {"Unregister", "Cancel", "Register"} /\ run.steps[i].a.k = k)}}
    IN  b1 \cup b2

JudgeC15(t) ==
    {<<"C15", "spelling-changes-effect", t.canon.steps[i].a.a>> :
        i \in {i \in 1..Len(t.canon.steps) : t.canon.steps[i].svc # t.spelled.steps[i].svc \/ t.canon.steps[i].out # t.spelled.steps[i].out}}

\* both runs are judged with every formula: the users of a hub pass SKIs in whatever spelling their labels and files have
JudgeRun(run) == UNION {JudgeStep(run, i) : i \in 1..Len(run.steps)} \cup JudgeEnd(run) \cup JudgeC18(run)
JudgeAll(t) == JudgeRun(t.canon) \cup JudgeRun(t.spelled) \cup JudgeC15(t)

Init == l = 0
Next == /\ l < Len(Trace)
        /\ l' = l + 1
        /\ LET t == Trace[l + 1]
           IN  \A k \in JudgeAll(t) : PrintT(<<"MON", ToJson([id |-> t.id, i |-> 0, key |-> k, kf |-> {}])>>)
Spec == Init /\ [][Next]_l
Done == TLCGet("stats").diameter = Len(Trace) + 1
====
