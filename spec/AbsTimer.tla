---- MODULE AbsTimer ----
(***************************************************************************)
(* The handshake timer the SME state machine (ShipSme) assumes, and what   *)
(* property C14 states: at most one timer is armed; arming replaces the    *)
(* armed one; only the armed, unstopped timer can deliver a timeout, and   *)
(* it delivers at most one.                                                *)
(***************************************************************************)
EXTENDS Naturals, Sequences
CONSTANT TimerIds
VARIABLES armed, fires
Init == armed = 0 /\ fires = <<>>
Arm(id) == armed' = id /\ UNCHANGED fires          \* replaces whatever was armed
Stop    == armed' = 0  /\ UNCHANGED fires
Fire    == armed # 0 /\ fires' = Append(fires, armed) /\ armed' = 0
Next == (\E id \in TimerIds : Arm(id)) \/ Stop \/ Fire
Spec == Init /\ [][Next]_<<armed, fires>>
====
