---- MODULE MonAvahi ----
(***************************************************************************)
(* Monitor pass for C19 over runs of the REAL mdns.AvahiProvider on a fake  *)
(* daemon (harness/cmd/avahi): the final daemon-side state and the log of   *)
(* calls the provider made.  The observable counterparts of Avahi.tla's     *)
(* P_C19_fresh / P_C19_afterShutdown / P_C19_shutdownFinal.                 *)
(***************************************************************************)
EXTENDS Naturals, Sequences, FiniteSets, TLC, Json
CONSTANT ObsFile
Trace == ndJsonDeserialize(ObsFile)
VARIABLE l
Idx(t) == 1..Len(t.events)
Pos(t, name) == IF \E i \in Idx(t) : t.events[i].ev = name THEN CHOOSE i \in Idx(t) : t.events[i].ev = name /\ \A j \in Idx(t) : t.events[j].ev = name => i <= j ELSE 0
Activity == {"Setup", "ServerStart", "BrowserNew", "GroupNew", "Commit"}
Judge(t) ==
    LET f  == t.final
        se == Pos(t, "ShutdownEnd")
        b1 == IF f.daemonUp /\ ~f.shutdown /\ f.published # f.requested
              THEN {<<"C19", IF f.requested = 0 THEN "announced-although-unannounced" ELSE IF f.published = 0 THEN "announcement-lost" ELSE "stale-announcement", f.published, f.requested>>} ELSE {}
        b2 == IF f.daemonUp /\ ~f.shutdown /\ f.browsers = 0 THEN {<<"C19", "browsing-not-resumed">>} ELSE {}
        b3 == IF se > 0 /\ \E i \in Idx(t) : i > se /\ t.events[i].ev \in Activity
              THEN {<<"C19", "activity-after-shutdown", t.events[CHOOSE i \in Idx(t) : i > se /\ t.events[i].ev \in Activity].ev>>} ELSE {}
        b4 == IF f.shutdown /\ (f.browsers > 0 \/ f.published # 0) THEN {<<"C19", "still-published-or-browsing-after-shutdown">>} ELSE {}
        b5 == IF f.shutdownHung THEN {<<"C19", "shutdown-hangs">>} ELSE {}
        b6 == IF f.panicked THEN {<<"C19", "panic">>} ELSE {}
        b7 == IF f.daemonUp /\ ~f.shutdown /\ f.browsers > 0 /\ ~(f.browseSent /\ f.browseReported)
              THEN {<<"C19", "resolved-service-not-reported">>} ELSE {}
    IN  b1 \cup b2 \cup b3 \cup b4 \cup b5 \cup b6 \cup b7
Init == l = 0
Next == /\ l < Len(Trace)
        /\ l' = l + 1
        /\ LET t == Trace[l + 1]
           IN  \A k \in Judge(t) : PrintT(<<"MON", ToJson([id |-> t.id, i |-> 0, key |-> k, kf |-> {}])>>)
Spec == Init /\ [][Next]_l
Done == TLCGet("stats").diameter = Len(Trace) + 1
====
