---- MODULE MonText ----
(***************************************************************************)
(* Monitor pass for C16: per row of the MdnsText table, what the REAL       *)
(* manager announced, what the library's own TXT parser and entry           *)
(* processing read back, and the QR-code text parsed by the grammar         *)
(* SHIP;KEY:VALUE;...ENDSHIP; - all as abstract strings (or "invalid" where  *)
(* the bytes are not valid UTF-8).                                           *)
(***************************************************************************)
EXTENDS MdnsText
CONSTANT ObsFile
Trace == ndJsonDeserialize(ObsFile)
VARIABLE l
Short == {"brand", "model", "type", "serial"}
\* t.row: the row; t.input: the varied field's abstract string; t.announced: field -> [valid, s]; t.entry: [present, fields: field -> [valid, s],
\* ski, path, register, cats]; t.qr: [ok, fields: key -> [valid, s]]; t.expect: ski, path, register, cats (as configured)
Judge(t) ==
    LET f   == t.row.field
        inp == t.input
        an  == t.announced[f]
        b1 == IF f \in Short /\ ~an.valid THEN {<<"C16", "announced-field-not-valid-utf8", f>>} ELSE {}
        b2 == IF f \in Short /\ an.valid /\ ~AnnouncedOK(an.s, inp) THEN {<<"C16", "announced-field-not-a-32-byte-prefix", f>>} ELSE {}
        b3 == IF f = "id" /\ (~an.valid \/ an.s # inp) THEN {<<"C16", "identifier-announced-differently">>} ELSE {}
        b4 == IF ~t.entry.present THEN {<<"C16", "announcement-not-read-back-as-an-entry", f>>} ELSE {}
        b5 == IF t.entry.present /\ an.valid /\ (~t.entry.fields[f].valid \/ t.entry.fields[f].s # an.s)
              THEN {<<"C16", "entry-field-differs-from-announced", f>>} ELSE {}
        b6 == IF t.entry.present /\ (t.entry.ski # t.expect.ski \/ t.entry.path # t.expect.path \/ t.entry.register # t.expect.register \/ t.entry.cats # t.expect.cats)
              THEN {<<"C16", "entry-ski-path-register-or-categories-differ">>} ELSE {}
        want == Without(IF f \in Short /\ an.valid THEN an.s ELSE inp, "semi")
        key == CASE f = "brand" -> "BRAND" [] f = "model" -> "MODEL" [] f = "type" -> "TYPE" [] f = "serial" -> "SERIAL" [] f = "id" -> "ID"
        b7 == IF ~t.qr.ok THEN {<<"C16", "qr-text-does-not-parse", f>>} ELSE {}
        b8 == IF t.qr.ok /\ want # <<>> /\ (key \notin DOMAIN t.qr.fields \/ ~t.qr.fields[key].valid \/ t.qr.fields[key].s # want)
              THEN {<<"C16", "qr-field-differs", f>>} ELSE {}
        b9 == IF t.qr.ok /\ t.qr.ski # t.expect.ski THEN {<<"C16", "qr-ski-differs">>} ELSE {}
    IN  b1 \cup b2 \cup b3 \cup b4 \cup b5 \cup b6 \cup b7 \cup b8 \cup b9
MInit == l = 0
MNext == /\ l < Len(Trace)
         /\ l' = l + 1
         /\ LET t == Trace[l + 1]
            IN  \A k \in Judge(t) : PrintT(<<"MON", ToJson([id |-> t.id, i |-> 0, key |-> k, kf |-> {}])>>)
MSpec == MInit /\ [][MNext]_l
Done == TLCGet("stats").diameter = Len(Trace) + 1
====
