---- MODULE MonBad ----
(***************************************************************************)
(* Monitor pass for the mDNS side of C08 over observations of the REAL       *)
(* resolver callback (harness/cmd/mdnsmgr -bad): no input makes the library  *)
(* panic or hang, and a bad record costs at most itself - the valid record   *)
(* of another service delivered right after it is taken up.                  *)
(***************************************************************************)
EXTENDS Naturals, Sequences, TLC, Json
CONSTANT ObsFile
Trace == ndJsonDeserialize(ObsFile)
VARIABLE l
Judge(t) ==
    (IF t.outcome = "panic" THEN {<<"C08", "mdns-input-panics">>} ELSE {})
    \cup (IF t.outcome = "hang" THEN {<<"C08", "mdns-input-blocks-the-resolver-loop">>} ELSE {})
    \cup (IF t.outcome = "ok" /\ ~t.goodAfter THEN {<<"C08", "valid-record-after-bad-input-not-taken-up">>} ELSE {})
    \cup (IF t.outcome = "ok" /\ ~t.queryOk THEN {<<"C08", "table-query-after-bad-input-fails">>} ELSE {})
Init == l = 0
Next == /\ l < Len(Trace)
        /\ l' = l + 1
        /\ LET b == Trace[l + 1].rows          \* observations come in batches
           IN  \A j \in 1..Len(b) : \A k \in Judge(b[j]) : PrintT(<<"MON", ToJson([id |-> b[j].id, i |-> 0, key |-> k, kf |-> {}])>>)
Spec == Init /\ [][Next]_l
Done == TLCGet("stats").diameter = Len(Trace) + 1
====
