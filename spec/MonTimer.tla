---- MODULE MonTimer ----
(***************************************************************************)
(* Monitor pass for C14 over traces recorded from real ship connections:   *)
(* a timed version of AbsTimer.  Events carry a millisecond time stamp      *)
(* taken under the harness' log mutex.  A timeout (Fire) is legal iff a     *)
(* timer is armed and its duration has elapsed since it was armed.  Interval*)
(* semantics: a Fire that overlaps a stop / re-arm call, or follows its     *)
(* return by less than Margin, counts as concurrent and is never a          *)
(* violation.                                                              *)
(***************************************************************************)
EXTENDS Naturals, Sequences, FiniteSets, TLC, Json
CONSTANTS ObsFile, Margin
Trace == ndJsonDeserialize(ObsFile)
VARIABLE l

S0 == [armed |-> FALSE, armAt |-> 0, dur |-> 0, quietSince |-> 0, busy |-> FALSE, nf |-> 0]

\* returns [s, bad]
OnEv(s, e) ==
    CASE e.k \in {"ArmStart", "StopStart"} -> [s |-> [s EXCEPT !.busy = TRUE], bad |-> {}]
      [] e.k = "ArmEnd"  -> [s |-> [s EXCEPT !.busy = FALSE, !.armed = TRUE, !.armAt = e.t0, !.dur = e.dur, !.quietSince = e.t], bad |-> {}]
      [] e.k = "StopEnd" -> [s |-> [s EXCEPT !.busy = FALSE, !.armed = FALSE, !.quietSince = e.t], bad |-> {}]
      [] e.k = "Fire" ->
            LET settled == ~s.busy /\ e.t >= s.quietSince + Margin
                bad == IF ~settled THEN {}
                       ELSE IF ~s.armed THEN {<<"C14", "timeout-after-stop", e.t - s.quietSince>>}
                       ELSE IF e.t + 2 < s.armAt + s.dur THEN {<<"C14", "timeout-from-replaced-timer", e.t - s.armAt, s.dur>>}
                       ELSE {}
            IN  \* the connection's handler re-arms a 60 s timer when a timeout is delivered
                [s |-> [s EXCEPT !.armed = TRUE, !.armAt = e.t, !.dur = 60000, !.nf = @ + 1], bad |-> bad]
      [] OTHER -> [s |-> s, bad |-> {}]

RECURSIVE Fold(_, _, _, _)
Fold(evs, i, s, bad) ==
    IF i > Len(evs) THEN bad
    ELSE LET r == OnEv(s, evs[i]) IN Fold(evs, i + 1, r.s, bad \cup {[i |-> i, key |-> k] : k \in r.bad})

Init == l = 0
Next == /\ l < Len(Trace)
        /\ l' = l + 1
        /\ LET t == Trace[l + 1]
           IN  \A b \in Fold(t.events, 1, S0, {}) :
                  PrintT(<<"MON", ToJson([id |-> t.id, i |-> b.i, key |-> b.key, kf |-> {}])>>)
Spec == Init /\ [][Next]_l
Done == TLCGet("stats").diameter = Len(Trace) + 1
====
