---- MODULE Timer2 ----
(***************************************************************************)
(* ship/handshake.go setHandshakeTimer as it is today, at the granularity  *)
(* of its two critical sections, with SEVERAL callers at the same time     *)
(* (the read pump re-arming in a hello handler while ApprovePending-        *)
(* Handshake or the prolongation path arms from another goroutine - the    *)
(* entry points of a connection are not serialised):                       *)
(*   StopStep(p)     stopHandshakeTimer(): under the mutex, close the       *)
(*                   current timer's own stop channel, running := false     *)
(*   PublishStep(p)  under the mutex: running := true, the new timer's      *)
(*                   channel becomes the current one; its goroutine starts  *)
(*   Fire(g)         g's time.After fires: under the mutex it reports only  *)
(*                   if its channel is still the current one and running    *)
(* Design "noChanCheck" (a seeded change): the expiry only looks at the     *)
(* running flag.  Two interleaved arms - stop, stop, publish, publish -     *)
(* leave the first timer replaced with its channel open: it then delivers a *)
(* timeout although a later timer is the armed one.                         *)
(* Readers: another goroutine holds the timer's mutex for a moment (one of  *)
(* the getters).  Every critical section waits for it - except in design    *)
(* "tryLockStop" (a seeded change): stopHandshakeTimer uses TryLock and      *)
(* returns without effect when the mutex is busy.  `want` is what the        *)
(* callers asked for: 0 after a stop call returned, the timer's id after an  *)
(* arm; StopHolds: a timeout is only ever delivered by the timer the callers *)
(* want armed.                                                               *)
(* C14 is the refinement into AbsTimer: the abstract timer is armed by      *)
(* PublishStep and stopped by StopStep.                                     *)
(***************************************************************************)
EXTENDS Naturals, Sequences, FiniteSets
CONSTANTS MaxArms, Procs, Design,       \* Design: "asIs" | "noChanCheck" | "tryLockStop"
          Readers                       \* TRUE: a reader may hold the timer's mutex
VARIABLES n, running, cur, chClosed, gor, fires, pc, mine, busy, want
vars == <<n, running, cur, chClosed, gor, fires, pc, mine, busy, want>>
Ids == 1..MaxArms
Init == /\ n = 0 /\ running = FALSE /\ cur = 0 /\ chClosed = {} /\ gor = [i \in Ids |-> "none"] /\ fires = <<>>
        /\ pc = [p \in Procs |-> "idle"] /\ mine = [p \in Procs |-> 0] /\ busy = FALSE /\ want = 0

\* stopHandshakeTimer (also the first half of setHandshakeTimer)
DoStop == /\ chClosed' = (IF running THEN chClosed \cup {cur} ELSE chClosed) /\ running' = FALSE
StopCall(p) == /\ pc[p] = "idle" /\ ~busy /\ DoStop /\ want' = 0 /\ UNCHANGED <<n, cur, gor, fires, pc, mine, busy>>
\* the seeded design: the mutex is busy, TryLock fails, the call returns - the caller takes the timer for stopped
StopSkipped(p) == /\ Design = "tryLockStop" /\ pc[p] = "idle" /\ busy /\ want' = 0
                  /\ UNCHANGED <<n, running, cur, chClosed, gor, fires, pc, mine, busy>>
ArmStop(p)  == /\ pc[p] = "idle" /\ ~busy /\ n < MaxArms /\ DoStop /\ n' = n + 1 /\ mine' = [mine EXCEPT ![p] = n + 1]
               /\ pc' = [pc EXCEPT ![p] = "stopped"] /\ UNCHANGED <<cur, gor, fires, busy, want>>
ArmPublish(p) == /\ pc[p] = "stopped" /\ ~busy /\ running' = TRUE /\ cur' = mine[p] /\ want' = mine[p]
                 /\ gor' = [gor EXCEPT ![mine[p]] = "waiting"] /\ pc' = [pc EXCEPT ![p] = "idle"]
                 /\ UNCHANGED <<n, chClosed, fires, mine, busy>>
ReaderIn  == Readers /\ ~busy /\ busy' = TRUE /\ UNCHANGED <<n, running, cur, chClosed, gor, fires, pc, mine, want>>
ReaderOut == busy /\ busy' = FALSE /\ UNCHANGED <<n, running, cur, chClosed, gor, fires, pc, mine, want>>
\* a closed stop channel ends the goroutine (stops happen well before expiry)
ExitClosed(g) == /\ gor[g] = "waiting" /\ g \in chClosed /\ gor' = [gor EXCEPT ![g] = "exited"]
                 /\ UNCHANGED <<n, running, cur, chClosed, fires, pc, mine, busy, want>>
\* expiry: select may pick the timer branch even if the channel is closed as well; the check under the mutex decides
Fire(g) == /\ gor[g] = "waiting" /\ ~busy
           /\ IF running /\ (Design = "noChanCheck" \/ cur = g)
              THEN running' = FALSE /\ fires' = Append(fires, g)
              ELSE UNCHANGED <<running, fires>>
           /\ gor' = [gor EXCEPT ![g] = "exited"] /\ UNCHANGED <<n, cur, chClosed, pc, mine, busy, want>>
Next == \/ \E p \in Procs : StopCall(p) \/ StopSkipped(p) \/ ArmStop(p) \/ ArmPublish(p)
        \/ \E g \in Ids : ExitClosed(g) \/ Fire(g)
        \/ ReaderIn \/ ReaderOut
Spec == Init /\ [][Next]_vars
Abs == INSTANCE AbsTimer WITH TimerIds <- Ids, armed <- (IF running THEN cur ELSE 0), fires <- fires
Refines == Abs!Spec
\* a timeout is delivered only by the timer the callers want armed (with one caller: never after its stop call returned)
StopHolds == [][fires' # fires => want = fires'[Len(fires')]]_vars
NoStaleFire == \A i, j \in 1..Len(fires) : i # j => fires[i] # fires[j]
====
