SPECIFICATION Spec
CONSTANTS MaxArms = 4
 Design = "shared"
PROPERTY Refines
CHECK_DEADLOCK FALSE
