---- MODULE MonMdns ----
(***************************************************************************)
(* Monitor pass for C17 over observations of the REAL mdns.MdnsManager:    *)
(*  (a) after every resolver event the manager's table equals the oracle    *)
(*      folded over the events so far (MdnsOracle);                         *)
(*  (b) at quiescence the last report the hub processed equals the final    *)
(*      table;                                                              *)
(*  (c) no table and no report lists an address of a service twice.         *)
(***************************************************************************)
EXTENDS MdnsOracle, Json
CONSTANT ObsFile
Trace == ndJsonDeserialize(ObsFile)
VARIABLE l
ToSet(q) == {q[i] : i \in 1..Len(q)}
Tab(j) == [s \in DOMAIN j |-> ToSet(j[s])]
EvOf(x) == [s |-> x.s, txt |-> x.txt, addrs |-> ToSet(x.addrs), remove |-> x.remove]
Hist(t) == [i \in 1..Len(t.events) |-> EvOf(t.events[i].e)]

Judge(t) ==
    LET h  == Hist(t)
        b1 == {<<"C17", "table-differs-from-history", i, t.events[i].e.txt, IF t.events[i].e.remove THEN "remove" ELSE "add">> :
                 i \in {i \in 1..Len(t.events) : Tab(t.events[i].table) # OracleF(h, i)}}
        b2 == IF Len(t.processed) > 0 /\ Tab(t.processed[Len(t.processed)]) # Tab(t.final)
              THEN {<<"C17", "last-report-is-not-the-final-table">>} ELSE {}
        b3 == IF Tab(t.final) # OracleF(h, Len(h)) THEN {<<"C17", "final-table-differs-from-history">>} ELSE {}
        b4 == IF Len(t.processed) = 0 /\ \E i \in 1..Len(h) : OracleF(h, i) # OracleF(h, i - 1)
              THEN {<<"C17", "change-never-reported">>} ELSE {}
        b5 == {<<"C17", "duplicate-address-in-table", i>> : i \in {i \in 1..Len(t.events) : t.events[i].dup}}
              \cup (IF t.finalDup THEN {<<"C17", "duplicate-address-in-table", 0>>} ELSE {})
              \cup (IF t.processedDup THEN {<<"C17", "duplicate-address-in-report">>} ELSE {})
    IN  b1 \cup b2 \cup b3 \cup b4 \cup b5

Init == l = 0
Next == /\ l < Len(Trace)
        /\ l' = l + 1
        /\ LET t == Trace[l + 1]
           IN  \A k \in Judge(t) : PrintT(<<"MON", ToJson([id |-> t.id, i |-> 0, key |-> k, kf |-> {}])>>)
Spec == Init /\ [][Next]_l
Done == TLCGet("stats").diameter = Len(Trace) + 1
====
