SPECIFICATION Spec
CONSTANTS MaxC = 3
 MaxDisturb = 1
 AtomicReg = FALSE
 FixStale = FALSE
 EmitMode = "none"
 SimDepth = 0
INVARIANT P_C05
INVARIANT NoOrphan
CHECK_DEADLOCK FALSE
