\* the configuration tools/check_hub2.py writes for stage M (quick tier); it rewrites this file in its scratch copy
SPECIFICATION Spec
CONSTANTS MaxC = 3
 MaxDisturb = 2
 AtomicReg = TRUE
 FixStale = TRUE
 FixIntent = TRUE
 FixShut = TRUE
 FixCancel = TRUE
 CancelSplit = FALSE
 FixCancelOrder = FALSE
 Rich = TRUE
 Rich2 = TRUE
 Warm = FALSE
 IdWrong = {}
 EmitMode = "none"
 SimDepth = 0
INVARIANT P_C05
INVARIANT NoOrphan
INVARIANT P_C10_trust
INVARIANT P_C10_shut
INVARIANT P_C09_pin
CHECK_DEADLOCK FALSE
