---- MODULE EebusJsonM ----
(* exhaustive enumeration: every top-level object whose members are scalars or containers of up to two scalars *)
EXTENDS EebusJson
CONSTANTS Emit, Level
D0 == IF Level = "quick"
      THEN {[k |-> "num"], [k |-> "big"]} \cup {[k |-> "str", s |-> s] : s \in {<<"x">>, <<"[", "{">>, <<"q">>}}
      ELSE {[k |-> "num"], [k |-> "big"], [k |-> "lit"]} \cup {[k |-> "str", s |-> s] : s \in {<<"x">>, <<"[", "{">>, <<"[", "]">>, <<",">>, <<"q">>}}
D1 == D0 \cup Objs2(D0) \cup Arrs(D0)
Top == Objs2(D1)
VARIABLE d
Init == d \in Top
Next == UNCHANGED d
Spec == Init /\ [][Next]_d
P_C07 == Benign(d) => RoundTrip(d)
\* the finding classes are real: each has a member that breaks the round trip (violated = witnessed)
KF_empty_array_unwitnessed == ~(Class(d) = "empty-array" /\ ~RoundTrip(d))
KF_pattern_unwitnessed == ~(Class(d) = "pattern-in-string" /\ ~RoundTrip(d))
\* deeper documents for the table-driven run: one more level of nesting, sampled
D2s == D0 \cup Objs2({[k |-> "num"], [k |-> "str", s |-> <<"x">>], [k |-> "arr", e |-> <<[k |-> "obj", m |-> <<<<"a", [k |-> "num"]>>>>]>>],
                      [k |-> "obj", m |-> <<<<"a", [k |-> "arr", e |-> <<[k |-> "num"], [k |-> "num"]>>]>>>>],
                      [k |-> "arr", e |-> <<[k |-> "arr", e |-> <<[k |-> "obj", m |-> <<>>]>>]>>]})
EmitRow == ~Emit \/ PrintT(<<"TEST", ToJson([doc |-> d])>>)
====
