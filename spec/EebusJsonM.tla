---- MODULE EebusJsonM ----
(* exhaustive enumeration: every top-level object whose members are scalars or containers of up to two scalars *)
EXTENDS EebusJson
CONSTANTS Emit, Level
D0 == IF Level = "quick"
      THEN {[k |-> "num"], [k |-> "big"]} \cup {[k |-> "str", s |-> s] : s \in {<<"x">>, <<"[", "{">>, <<"q">>}}
      ELSE {[k |-> "num"], [k |-> "big"], [k |-> "lit"]} \cup {[k |-> "str", s |-> s] : s \in {<<"x">>, <<"[", "{">>, <<"[", "]">>, <<",">>, <<"q">>}}
\* deeper documents: arrays directly inside arrays, objects below them, up to five levels - "at every nesting level"
N1 == [k |-> "num"]
SX == [k |-> "str", s |-> <<"x">>]
Arr1(V) == {[k |-> "arr", e |-> <<v>>] : v \in V}
Arr2(V, W) == {[k |-> "arr", e |-> <<v, w>>] : v \in V, w \in W}
Obj1(V) == {[k |-> "obj", m |-> <<<<key, v>>>>] : key \in Keys, v \in V}
Deep0 == {N1, SX}
DeepO == Objs2(Deep0)
SmallO == {[k |-> "obj", m |-> <<<<"a", N1>>>>], [k |-> "obj", m |-> <<<<"a", N1>>, <<"b", SX>>>>], [k |-> "obj", m |-> <<>>]}
DeepL1 == Arr1(Deep0 \cup DeepO) \cup Arr2(SmallO, SmallO)
SmallL1 == {[k |-> "arr", e |-> <<N1>>], [k |-> "arr", e |-> <<[k |-> "obj", m |-> <<<<"a", N1>>, <<"b", SX>>>>]>>]}
DeepL2 == Arr1(DeepL1) \cup Arr2(DeepL1, SmallL1) \cup Arr2(SmallL1 \cup SmallO, DeepL1)
DeepL3 == Arr1(DeepL2)
DeepOO == Obj1(DeepL1 \cup DeepL2)
DeepAO == Arr1(DeepOO) \cup Arr1(Arr1(DeepOO))
DeepV == DeepL2 \cup DeepL3 \cup DeepOO \cup DeepAO
TopDeep == Obj1(DeepV) \cup {[k |-> "obj", m |-> <<<<"a", v>>, <<"b", w>>>>] : v \in SmallL1 \cup {N1}, w \in DeepL2 \cup DeepAO}
D1 == D0 \cup Objs2(D0) \cup Arrs(D0)
Top == Objs2(D1) \cup TopDeep
VARIABLE d
Init == d \in Top
Next == UNCHANGED d
Spec == Init /\ [][Next]_d
P_C07 == Benign(d) => RoundTrip(d)
\* the finding classes are real: each has a member that breaks the round trip (violated = witnessed)
KF_empty_array_unwitnessed == ~(Class(d) = "empty-array" /\ ~RoundTrip(d))
KF_pattern_unwitnessed == ~(Class(d) = "pattern-in-string" /\ ~RoundTrip(d))
EmitRow == ~Emit \/ PrintT(<<"TEST", ToJson([doc |-> d])>>)
====
