---- MODULE MdnsTextGen ----
(* prints the configuration table of MdnsText.tla, one JSON row per line *)
EXTENDS MdnsText
VARIABLE done
Init == done = FALSE
Next == /\ ~done /\ done' = TRUE
        /\ \A r \in Rows : Valid(r) => PrintT(<<"TEST", ToJson(r)>>)
Spec == Init /\ [][Next]_done
====
