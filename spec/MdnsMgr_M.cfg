SPECIFICATION Spec
CONSTANTS Services = {"s1", "s2"}
 MaxEvents = 3
 Design = "unordered"
 EmitMode = "none"
VIEW View
INVARIANT Inv_C17b
CHECK_DEADLOCK FALSE
