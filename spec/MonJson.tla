---- MODULE MonJson ----
(***************************************************************************)
(* Monitor pass for C07: per document, the wire form and the round trip     *)
(* the REAL JsonIntoEEBUSJson / JsonFromEEBUSJson produced (as tokens) are   *)
(* compared with the requirement operators of EebusJson.tla; a failing       *)
(* document is labelled with its class (benign or one of the three classes   *)
(* for which the textual inverse is known to fail).                          *)
(***************************************************************************)
EXTENDS EebusJson
CONSTANT ObsFile
Trace == ndJsonDeserialize(ObsFile)
VARIABLE l
Judge(t) ==
    LET d  == t.doc
        b1 == IF t.err # "" THEN {<<"C07", "transform-failed", Class(d)>>} ELSE {}
        b2 == IF t.err = "" /\ t.wire # Wire(d) THEN {<<"C07", "wire-shape-differs", Class(d)>>} ELSE {}
        b3 == IF t.err = "" /\ t.back # Ser(d) THEN {<<"C07", "round-trip-differs", Class(d)>>} ELSE {}
    IN  b1 \cup b2 \cup b3
Init == l = 0
Next == /\ l < Len(Trace)
        /\ l' = l + 1
        /\ LET t == Trace[l + 1]
           IN  \A k \in Judge(t) : PrintT(<<"MON", ToJson([id |-> t.id, i |-> 0, key |-> k, kf |-> {}])>>)
Spec == Init /\ [][Next]_l
Done == TLCGet("stats").diameter = Len(Trace) + 1
====
