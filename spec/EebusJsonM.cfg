SPECIFICATION Spec
CONSTANT Emit = FALSE
INVARIANT P_C07
CHECK_DEADLOCK FALSE
