SPECIFICATION Spec
CONSTANTS Skis = {"r1", "r2"}
 MaxConns = 2
 Defects = {"rawSki", "staleDisconnect", "dialAfterShutdown"}
 GenMode = "full"
 EmitMode = "none"
 SimDepth = 0
 MaxOps = 5
VIEW View
INVARIANT Inv_C10_dial
INVARIANT Inv_C11_registry
CHECK_DEADLOCK FALSE
