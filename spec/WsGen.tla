---- MODULE WsGen ----
(***************************************************************************)
(* Environment scripts for the websocket conformance run (C12, C13): the   *)
(* environment choices of WsConn.tla made explicit - how many writers and   *)
(* messages, what ends the connection (local close with / without reason,   *)
(* peer close frame, abrupt EOF, the k-th transport write or read failing)  *)
(* and where that event is placed relative to the writers' progress,        *)
(* including the full outgoing queue (blockedFull).  TLC enumerates the     *)
(* whole table; every row is one run of the real ws.WebsocketConnection.    *)
(***************************************************************************)
EXTENDS Naturals, TLC, Json
CONSTANTS MaxWriters, MaxK, Delays,
          Long        \* TRUE: the two scenarios that take more than a minute of real time (keep-alive) are in the table
\* peerBad (C08): a frame a SHIP peer must never send - k = 1 text frame, 2 one-byte binary, 3 empty binary (all refused: the
\* connection is closed and the loss reported), 4 a 1 MB binary frame, 5 a ping with payload (both tolerated)
\* localCloseLateRead (C13): the peer's frame has been taken off the socket, but the transport read that carries it returns to the
\* read pump only after the local CloseDataConnection (k = 0 without, k = 1 with a reason) has returned: it must not be delivered
\* peerSilent (C13): the peer stops answering (no pong, no FIN): the read deadline (pong wait, 60 s) is the only thing that
\* notices; idleLong: the control - a peer that answers pings keeps an idle connection alive beyond the pong wait
\* localCloseStalled (C13): the peer stays connected but reads nothing - the pump's transport write blocks for good; a local
\* close (k = 1: with a reason, which must wait for that write) still returns and releases everything: the write deadline
\* slowWrite (C06): the transport write of the first message takes a few seconds (a peer that reads slowly), nothing closes
\* the connection: every message handed to it while it stays open reaches the peer
Events == {"none", "slowWrite", "localClose", "localCloseReason", "localCloseLateRead", "localCloseStalled", "peerClose", "peerEof", "peerBad", "writeFail", "readFail", "peerSilent", "idleLong"}
Places == {"start", "idle", "mid", "blockedFull"}
Rows == { [writers |-> w, msgs |-> m, inbound |-> i, event |-> e, place |-> p, k |-> k, delay |-> d] :
            w \in 1..MaxWriters, m \in 1..2, i \in {0, 2}, e \in Events, p \in Places, k \in 0..MaxK, d \in Delays }
\* k: for writeFail / readFail the position of the failing transport operation, for peerClose the index of the close code
\* (1000, 1001, 1002, 1008, 1011, 3000, 4001, 4452, 4999, ...)
\* localCloseReason, k = 1: the transport write of the close frame returns only after the peer has reacted to it
Valid(r) == /\ (r.event \in {"writeFail", "readFail", "peerClose", "peerBad"}) => (r.k > 0)
            /\ (r.event \in {"none", "slowWrite", "localClose", "peerEof", "peerSilent", "idleLong"}) => (r.k = 0)
            /\ r.event = "localCloseReason" => r.k <= 2          \* k = 2: the transport write of the close frame fails
            /\ r.event \in {"peerSilent", "idleLong"} => (Long /\ r.k = 0 /\ r.inbound = 0 /\ r.place = "idle" /\ r.writers = 1 /\ r.msgs = 1)
            /\ r.event = "slowWrite" => (r.k = 0 /\ r.inbound = 0 /\ r.place = "idle" /\ r.msgs = 2)
            /\ r.event = "localCloseStalled" => (r.k <= 1 /\ r.inbound = 0 /\ r.place = "idle" /\ r.writers = 1 /\ r.msgs = 1)
            /\ r.event = "localCloseLateRead" => (r.k <= 1 /\ r.inbound = 0 /\ r.place = "idle")
            /\ r.event = "peerBad" => (r.k <= 5 /\ r.inbound = 0 /\ r.msgs = 2 /\ r.place \in {"idle", "mid"})
            /\ (r.place = "mid") <=> (r.delay > 0)
            /\ r.place = "blockedFull" => (r.writers >= 2 /\ r.msgs = 2 /\ r.event \notin {"readFail", "none"} /\ r.k <= 2)
            /\ r.event = "peerClose" => (r.inbound = 0 /\ r.msgs = 2 /\ r.place \in {"idle", "mid", "blockedFull"})
            /\ r.event \in {"writeFail", "readFail"} => r.place \in {"mid", "idle", "blockedFull"}
            /\ r.event = "none" => r.place = "idle"
VARIABLE done
Init == done = FALSE
Next == /\ ~done /\ done' = TRUE
        /\ \A r \in Rows : Valid(r) => PrintT(<<"TEST", ToJson(r)>>)
Spec == Init /\ [][Next]_done
====
