---- MODULE MdnsBadGen ----
(***************************************************************************)
(* C08, mDNS side: the table of resolver inputs a remote party can cause -  *)
(* a TXT key/value set that deviates from a valid SHIP record in one or two  *)
(* keys (key absent, or one of the value classes the harness concretises:   *)
(* empty, wrong type, binary, oversized, ...), or no TXT set at all,          *)
(* crossed with the address-list, port and service-name classes and with     *)
(* add / remove.  TLC enumerates the whole table; every row is one call of   *)
(* the real resolver callback of a real mdns.MdnsManager, followed by a      *)
(* valid record of another service that must still be taken up ("at most     *)
(* that mDNS record is ignored").                                            *)
(***************************************************************************)
EXTENDS Naturals, TLC, Json
CONSTANTS NVals,     \* value classes 1..NVals as concretised by the harness; 0 = the key is absent
          NAddrs, Ports, Names,
          NPair      \* two-key deviations among the first NPair keys (the mandatory ones come first)
Vals == 1..NVals
Addrs == 1..NAddrs
Keys == <<"txtvers", "id", "path", "ski", "register", "brand", "model", "type", "serial", "cat", "", "unknown">>
NK == 12
Row(el, k1, v1, k2, v2, a, p, n, rm) ==
    [elems |-> el, k1 |-> k1, v1 |-> v1, k2 |-> k2, v2 |-> v2, addr |-> a, port |-> p, name |-> n, remove |-> rm]
\* no TXT set / an empty one
Rows0 == { Row(el, "-", 0, "-", 0, a, p, n, rm) : el \in {"nil", "empty"}, a \in Addrs, p \in Ports, n \in Names, rm \in BOOLEAN }
\* a valid record with one key deviating, crossed with everything else
Rows1 == { Row("map", Keys[i], v, "-", 0, a, p, n, rm) : i \in 1..NK, v \in Vals \cup {0}, a \in Addrs, p \in Ports, n \in Names, rm \in BOOLEAN }
\* two keys deviating, with ordinary addresses / port / name
Rows2 == { Row("map", Keys[i], v, Keys[j], w, 1, 1, 1, FALSE) : i \in 1..NPair, j \in 1..NPair, v \in Vals \cup {0}, w \in Vals \cup {0} }
VARIABLE done
Init == done = FALSE
Next == /\ ~done /\ done' = TRUE
        /\ \A r \in Rows0 \cup Rows1 : PrintT(<<"TEST", ToJson(r)>>)
        /\ \A r \in Rows2 : r.k1 # r.k2 => PrintT(<<"TEST", ToJson(r)>>)
Spec == Init /\ [][Next]_done
====
