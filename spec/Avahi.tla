---- MODULE Avahi ----
(***************************************************************************)
(* mdns/avahi.go: the Avahi provider's life cycle - announce bookkeeping,   *)
(* the daemon's Disconnected callback, the reconnect loops (check, sleep    *)
(* 1 s, Start, re-announce) and Shutdown - against a daemon that goes away  *)
(* and comes back (C19).  The environment acts either right away (within    *)
(* the loop's 1 s sleep) or after a Wait, which lets every sleeping loop     *)
(* run one iteration.  Defects = behaviours of the unchanged tree that the   *)
(* current tree still has.                                                   *)
(***************************************************************************)
EXTENDS Naturals, Sequences, FiniteSets, TLC, Json
CONSTANTS MaxDisc, MaxVer, MaxWaits, Defects, EmitMode
DefectNames == {"staleReannounce",   \* the loop re-announces the data captured at disconnect time
                "shutdownUndone",    \* manualShutdown is only checked before the sleep, and Start resets it
                "multiLoop"}         \* every Disconnected event starts another reconnect loop: duplicate browsers, one is never freed
ASSUME Defects \subseteq DefectNames
Has(d) == d \in Defects

VARIABLES daemonUp,      \* the daemon is reachable
          browsers,      \* service browsers alive on the daemon
          published,     \* TXT version the daemon currently publishes for us (0 = nothing)
          stored,        \* mdnsServiceData: announcement to repeat after a reconnect (0 = none)
          group,         \* avEntryGroup # nil
          manualShutdown, autoReconnect,
          loops,         \* sequence of reconnect loops: [data] (data = announcement captured at disconnect)
          requested,     \* what the application asked for last (0 = no announcement active)
          shutdownDone, lateActivity, ndisc, ver, nwaits, script
vars == <<daemonUp, browsers, published, stored, group, manualShutdown, autoReconnect, loops, requested,
          shutdownDone, lateActivity, ndisc, ver, nwaits, script>>

Init == /\ daemonUp = TRUE /\ browsers = 1 /\ published = 0 /\ stored = 0 /\ group = FALSE
        /\ manualShutdown = FALSE /\ autoReconnect = TRUE /\ loops = <<>>
        /\ requested = 0 /\ shutdownDone = FALSE /\ lateActivity = FALSE /\ ndisc = 0 /\ ver = 0 /\ nwaits = 0
        /\ script = <<>>

Log(op) == script' = IF EmitMode = "none" THEN script ELSE Append(script, op)

\* Announce(serviceName, port, txt) with a new TXT version (also what SetAutoAccept leads to); fails while the daemon is down,
\* but the data is stored first
Announce == /\ ~shutdownDone /\ ver < MaxVer /\ ver' = ver + 1
            /\ stored' = ver + 1 /\ requested' = ver + 1
            /\ (IF daemonUp THEN published' = ver + 1 /\ group' = TRUE ELSE UNCHANGED <<published, group>>)
            /\ Log([op |-> "Announce", v |-> ver + 1])
            /\ UNCHANGED <<daemonUp, browsers, manualShutdown, autoReconnect, loops, shutdownDone, lateActivity, ndisc, nwaits>>
Unannounce == /\ ~shutdownDone /\ requested # 0
              /\ stored' = 0 /\ requested' = 0
              /\ (IF group THEN group' = FALSE /\ published' = (IF daemonUp THEN 0 ELSE published) ELSE UNCHANGED <<group, published>>)
              /\ Log([op |-> "Unannounce"])
              /\ UNCHANGED <<daemonUp, browsers, manualShutdown, autoReconnect, loops, shutdownDone, lateActivity, ndisc, ver, nwaits>>

\* the daemon goes away: everything it held is gone; the Disconnected callback starts a reconnect loop
DaemonDown == /\ daemonUp /\ ndisc < MaxDisc /\ ndisc' = ndisc + 1
              /\ daemonUp' = FALSE /\ browsers' = 0 /\ published' = 0
              /\ (IF manualShutdown \/ ~autoReconnect \/ (loops # <<>> /\ ~Has("multiLoop"))
                  THEN UNCHANGED loops
                  ELSE loops' = Append(loops, [data |-> stored]))
              /\ Log([op |-> "DaemonDown"])
              /\ UNCHANGED <<stored, group, manualShutdown, autoReconnect, requested, shutdownDone, lateActivity, ver, nwaits>>
DaemonUp == /\ ~daemonUp /\ daemonUp' = TRUE
            /\ Log([op |-> "DaemonUp"])
            /\ UNCHANGED <<browsers, published, stored, group, manualShutdown, autoReconnect, loops, requested, shutdownDone, lateActivity, ndisc, ver, nwaits>>

Shutdown == /\ ~shutdownDone /\ shutdownDone' = TRUE
            /\ manualShutdown' = TRUE /\ autoReconnect' = FALSE
            /\ browsers' = (IF browsers > 0 THEN browsers - 1 ELSE 0)       \* only the browser the provider remembers is freed
            /\ stored' = 0 /\ group' = FALSE /\ published' = 0 /\ requested' = 0
            /\ Log([op |-> "Shutdown"])
            /\ UNCHANGED <<daemonUp, loops, lateActivity, ndisc, ver, nwaits>>

\* one iteration of one reconnect loop whose sleep is over: st = [browsers, published, stored, group, manualShutdown,
\* autoReconnect, late, keep]
Iter(st, lp) ==
    IF ~Has("shutdownUndone") /\ st.manualShutdown THEN [st EXCEPT !.keep = FALSE]      \* repaired: honour a shutdown after the sleep
    ELSE LET s1 == [st EXCEPT !.manualShutdown = FALSE, !.autoReconnect = TRUE]       \* Start() resets the flags
         IN  IF ~daemonUp THEN [s1 EXCEPT !.keep = TRUE, !.late = @ \/ shutdownDone]  \* Setup fails: next round
             ELSE LET d  == IF Has("staleReannounce") THEN lp.data ELSE s1.stored
                      s2 == [s1 EXCEPT !.browsers = @ + 1, !.late = @ \/ shutdownDone, !.keep = FALSE]
                  IN  IF d # 0 THEN [s2 EXCEPT !.stored = d, !.published = d, !.group = TRUE] ELSE s2
RECURSIVE RunLoops(_, _, _)
RunLoops(st, ls, kept) ==
    IF ls = <<>> THEN [st |-> st, kept |-> kept]
    ELSE LET r == Iter(st, Head(ls))
         IN  RunLoops([r EXCEPT !.keep = FALSE], Tail(ls), IF r.keep THEN Append(kept, Head(ls)) ELSE kept)

\* more than a second passes: every sleeping loop runs one iteration
Wait == /\ nwaits < MaxWaits /\ nwaits' = nwaits + 1
        /\ LET st0 == [browsers |-> browsers, published |-> published, stored |-> stored, group |-> group,
                       manualShutdown |-> manualShutdown, autoReconnect |-> autoReconnect, late |-> lateActivity, keep |-> FALSE]
               r   == RunLoops(st0, loops, <<>>)
           IN  /\ browsers' = r.st.browsers /\ published' = r.st.published /\ stored' = r.st.stored /\ group' = r.st.group
               /\ manualShutdown' = r.st.manualShutdown /\ autoReconnect' = r.st.autoReconnect
               /\ lateActivity' = r.st.late /\ loops' = r.kept
        /\ Log([op |-> "Wait"])
        /\ UNCHANGED <<daemonUp, requested, shutdownDone, ndisc, ver>>

Next == Announce \/ Unannounce \/ DaemonDown \/ DaemonUp \/ Shutdown \/ Wait
Spec == Init /\ [][Next]_vars

\* C19: once the daemon is reachable again and no loop is left, browsing is resumed and what is published is what was requested last
Settled == daemonUp /\ loops = <<>> /\ ~shutdownDone
P_C19_fresh   == Settled => (browsers > 0 /\ published = requested)
P_C19_afterShutdown == ~lateActivity
P_C19_shutdownFinal == shutdownDone => (loops = <<>> => browsers = 0 /\ published = 0)

Quiet == loops = <<>> /\ daemonUp /\ nwaits > 0
Emit == EmitMode = "none" \/ ~(Quiet' /\ script'[Len(script')].op = "Wait") \/ PrintT(<<"TEST", ToJson(script')>>)
View == <<daemonUp, browsers, published, stored, group, manualShutdown, autoReconnect, loops, requested, shutdownDone, lateActivity, ndisc, ver, nwaits>>
====
