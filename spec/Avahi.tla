---- MODULE Avahi ----
(***************************************************************************)
(* mdns/avahi.go: the Avahi provider's life cycle - announce bookkeeping,   *)
(* the daemon's Disconnected callback, the reconnect loops (check, sleep    *)
(* 1 s, Start, re-announce) and Shutdown - against a daemon that goes away  *)
(* and comes back (C19).  The environment acts either right away (within    *)
(* the loop's 1 s sleep) or after a Wait, which lets every sleeping loop     *)
(* run one iteration.  Defects = behaviours of the unchanged tree that the   *)
(* current tree still has.                                                   *)
(***************************************************************************)
EXTENDS Naturals, Sequences, FiniteSets, TLC, Json
CONSTANTS MaxDisc, MaxVer, MaxWaits, MaxBrowse, Defects, EmitMode
DefectNames == {"staleReannounce",   \* the loop re-announces the data captured at disconnect time
                "shutdownUndone",    \* manualShutdown is only checked before the sleep, and Start resets it
                "resolveTakesMutex", \* (a design the tree never had; a seeded change did) the listener takes the provider's mutex after resolving a
                                     \* service - Shutdown holds that mutex while it waits for the listener: they wait for each other for ever
                "multiLoop"}         \* every Disconnected event starts another reconnect loop: duplicate browsers, one is never freed
ASSUME Defects \subseteq DefectNames
Has(d) == d \in Defects

VARIABLES daemonUp,      \* the daemon is reachable
          browsers,      \* service browsers alive on the daemon
          published,     \* TXT version the daemon currently publishes for us (0 = nothing)
          stored,        \* mdnsServiceData: announcement to repeat after a reconnect (0 = none)
          group,         \* avEntryGroup # nil
          manualShutdown, autoReconnect,
          loops,         \* sequence of reconnect loops: [data] (data = announcement captured at disconnect)
          requested,     \* what the application asked for last (0 = no announcement active)
          shutdownDone, lateActivity, ndisc, ver, nwaits, script,
          lst,           \* the listener goroutine (chanListener): "idle" (in its select) or "resolving" (inside ResolveService:
                         \* a D-Bus round trip whose answer the daemon has not given yet)
          shutting,      \* Shutdown was called and has not returned: it holds the provider's mutex and waits for the listener
          nbrowse, reported
lvars == <<lst, shutting, nbrowse, reported>>
vars == <<daemonUp, browsers, published, stored, group, manualShutdown, autoReconnect, loops, requested,
          shutdownDone, lateActivity, ndisc, ver, nwaits, script, lvars>>

Init == /\ daemonUp = TRUE /\ browsers = 1 /\ published = 0 /\ stored = 0 /\ group = FALSE
        /\ manualShutdown = FALSE /\ autoReconnect = TRUE /\ loops = <<>>
        /\ requested = 0 /\ shutdownDone = FALSE /\ lateActivity = FALSE /\ ndisc = 0 /\ ver = 0 /\ nwaits = 0
        /\ script = <<>> /\ lst = "idle" /\ shutting = FALSE /\ nbrowse = 0 /\ reported = 0

Log(op) == script' = IF EmitMode = "none" THEN script ELSE Append(script, op)

\* Announce(serviceName, port, txt) with a new TXT version (also what SetAutoAccept leads to); fails while the daemon is down,
\* but the data is stored first
Announce == /\ ~shutting /\ UNCHANGED lvars /\ ~shutdownDone /\ ver < MaxVer /\ ver' = ver + 1
            /\ stored' = ver + 1 /\ requested' = ver + 1
            /\ (IF daemonUp THEN published' = ver + 1 /\ group' = TRUE ELSE UNCHANGED <<published, group>>)
            /\ Log([op |-> "Announce", v |-> ver + 1])
            /\ UNCHANGED <<daemonUp, browsers, manualShutdown, autoReconnect, loops, shutdownDone, lateActivity, ndisc, nwaits>>
Unannounce == /\ ~shutting /\ UNCHANGED lvars /\ ~shutdownDone /\ requested # 0
              /\ stored' = 0 /\ requested' = 0
              /\ (IF group THEN group' = FALSE /\ published' = (IF daemonUp THEN 0 ELSE published) ELSE UNCHANGED <<group, published>>)
              /\ Log([op |-> "Unannounce"])
              /\ UNCHANGED <<daemonUp, browsers, manualShutdown, autoReconnect, loops, shutdownDone, lateActivity, ndisc, ver, nwaits>>

\* the daemon goes away: everything it held is gone; the Disconnected callback starts a reconnect loop
DaemonDown == /\ ~shutting /\ UNCHANGED lvars /\ daemonUp /\ ndisc < MaxDisc /\ ndisc' = ndisc + 1
              /\ daemonUp' = FALSE /\ browsers' = 0 /\ published' = 0
              /\ (IF manualShutdown \/ ~autoReconnect \/ (loops # <<>> /\ ~Has("multiLoop"))
                  THEN UNCHANGED loops
                  ELSE loops' = Append(loops, [data |-> stored]))
              /\ Log([op |-> "DaemonDown"])
              /\ UNCHANGED <<stored, group, manualShutdown, autoReconnect, requested, shutdownDone, lateActivity, ver, nwaits>>
DaemonUp == /\ ~shutting /\ UNCHANGED lvars /\ ~daemonUp /\ daemonUp' = TRUE
            /\ Log([op |-> "DaemonUp"])
            /\ UNCHANGED <<browsers, published, stored, group, manualShutdown, autoReconnect, loops, requested, shutdownDone, lateActivity, ndisc, ver, nwaits>>

\* Shutdown, first half: the mutex is taken, the flags are set, the browser is freed; then Shutdown sends on the listener's stop
\* channel - an unbuffered send the listener only takes in its select, i.e. once a resolve in progress is over
ShutdownCall == /\ ~shutdownDone /\ ~shutting /\ shutting' = TRUE
                /\ Log([op |-> "Shutdown"])
                /\ UNCHANGED <<daemonUp, browsers, published, stored, group, manualShutdown, autoReconnect, loops, requested,
                               shutdownDone, lateActivity, ndisc, ver, nwaits, lst, nbrowse, reported>>
ShutdownFinish == /\ shutting /\ lst = "idle" /\ shutting' = FALSE /\ shutdownDone' = TRUE
            /\ manualShutdown' = TRUE /\ autoReconnect' = FALSE
            /\ browsers' = (IF browsers > 0 THEN browsers - 1 ELSE 0)       \* only the browser the provider remembers is freed
            /\ stored' = 0 /\ group' = FALSE /\ published' = 0 /\ requested' = 0
            /\ UNCHANGED <<daemonUp, loops, lateActivity, ndisc, ver, nwaits, script, lst, nbrowse, reported>>
\* a service appears: the browser hands it to the listener, which starts to resolve it
BrowseAdd == /\ ~shutting /\ ~shutdownDone /\ daemonUp /\ browsers > 0 /\ lst = "idle" /\ nbrowse < MaxBrowse
             /\ lst' = "resolving" /\ nbrowse' = nbrowse + 1
             /\ Log([op |-> "BrowseAdd"])
             /\ UNCHANGED <<daemonUp, browsers, published, stored, group, manualShutdown, autoReconnect, loops, requested,
                            shutdownDone, lateActivity, ndisc, ver, nwaits, shutting, reported>>
\* the daemon answers: the listener reports the service and returns to its select. It needs no lock for that - with the
\* (seeded) design that takes the provider's mutex here it cannot go on while Shutdown holds it
ResolveDone == /\ lst = "resolving" /\ ~(Has("resolveTakesMutex") /\ shutting)
               /\ lst' = "idle" /\ reported' = reported + 1
               /\ Log([op |-> "ResolveDone"])
               /\ UNCHANGED <<daemonUp, browsers, published, stored, group, manualShutdown, autoReconnect, loops, requested,
                              shutdownDone, lateActivity, ndisc, ver, nwaits, shutting, nbrowse>>

\* one iteration of one reconnect loop whose sleep is over: st = [browsers, published, stored, group, manualShutdown,
\* autoReconnect, late, keep]
Iter(st, lp) ==
    IF ~Has("shutdownUndone") /\ st.manualShutdown THEN [st EXCEPT !.keep = FALSE]      \* repaired: honour a shutdown after the sleep
    ELSE LET s1 == [st EXCEPT !.manualShutdown = FALSE, !.autoReconnect = TRUE]       \* Start() resets the flags
         IN  IF ~daemonUp THEN [s1 EXCEPT !.keep = TRUE, !.late = @ \/ shutdownDone]  \* Setup fails: next round
             ELSE LET d  == IF Has("staleReannounce") THEN lp.data ELSE s1.stored
                      s2 == [s1 EXCEPT !.browsers = @ + 1, !.late = @ \/ shutdownDone, !.keep = FALSE]
                  IN  IF d # 0 THEN [s2 EXCEPT !.stored = d, !.published = d, !.group = TRUE] ELSE s2
RECURSIVE RunLoops(_, _, _)
RunLoops(st, ls, kept) ==
    IF ls = <<>> THEN [st |-> st, kept |-> kept]
    ELSE LET r == Iter(st, Head(ls))
         IN  RunLoops([r EXCEPT !.keep = FALSE], Tail(ls), IF r.keep THEN Append(kept, Head(ls)) ELSE kept)

\* more than a second passes: every sleeping loop runs one iteration
Wait == /\ ~shutting /\ UNCHANGED lvars /\ nwaits < MaxWaits /\ nwaits' = nwaits + 1
        /\ LET st0 == [browsers |-> browsers, published |-> published, stored |-> stored, group |-> group,
                       manualShutdown |-> manualShutdown, autoReconnect |-> autoReconnect, late |-> lateActivity, keep |-> FALSE]
               r   == RunLoops(st0, loops, <<>>)
           IN  /\ browsers' = r.st.browsers /\ published' = r.st.published /\ stored' = r.st.stored /\ group' = r.st.group
               /\ manualShutdown' = r.st.manualShutdown /\ autoReconnect' = r.st.autoReconnect
               /\ lateActivity' = r.st.late /\ loops' = r.kept
        /\ Log([op |-> "Wait"])
        /\ UNCHANGED <<daemonUp, requested, shutdownDone, ndisc, ver>>

Next == Announce \/ Unannounce \/ DaemonDown \/ DaemonUp \/ ShutdownCall \/ ShutdownFinish \/ BrowseAdd \/ ResolveDone \/ Wait
\* the daemon answers every resolve request and the provider's own steps are taken
Spec == Init /\ [][Next]_vars /\ WF_vars(ShutdownFinish) /\ WF_vars(ResolveDone)

\* C19: once the daemon is reachable again and no loop is left, browsing is resumed and what is published is what was requested last
Settled == daemonUp /\ loops = <<>> /\ ~shutdownDone
P_C19_fresh   == Settled => (browsers > 0 /\ published = requested)
P_C19_afterShutdown == ~lateActivity
\* "shutdown itself never deadlocks": a Shutdown that was called returns (liveness), whatever the listener is doing
L_C19_shutdownReturns == shutting ~> shutdownDone
P_C19_shutdownFinal == shutdownDone => (loops = <<>> => browsers = 0 /\ published = 0)

Quiet == loops = <<>> /\ daemonUp /\ nwaits > 0 /\ lst = "idle" /\ ~shutting
Emit == EmitMode = "none" \/ ~(Quiet' /\ script'[Len(script')].op = "Wait") \/ PrintT(<<"TEST", ToJson(script')>>)
View == <<daemonUp, browsers, published, stored, group, manualShutdown, autoReconnect, loops, requested, shutdownDone, lateActivity, ndisc, ver, nwaits, lst, shutting, nbrowse>>
====
