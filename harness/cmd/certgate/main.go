// Command certgate evaluates the rows of spec/CertGate.tla on a real hub.Hub (C02). Inbound rows: a TLS + websocket
// client built per row (forged SKI extension, TLS version, sub-protocol offer) connects to the hub's real server and sends
// the SHIP init message; whether the hub answers it shows whether SHIP processing started. Outbound rows: the hub dials an
// adversarial TLS websocket server that presents the row's certificate; whether the hub's SHIP init arrives is recorded.
// Generator rows: certificates from cert.CreateCertificate.
package main

import (
	"bytes"
	"crypto/ecdsa"
	"crypto/elliptic"
	"crypto/rand"
	"crypto/sha1" // #nosec G505
	"crypto/tls"
	"crypto/x509"
	"crypto/x509/pkix"
	"encoding/hex"
	"encoding/json"
	"flag"
	"fmt"
	"math/big"
	"net"
	"net/http"
	"net/http/httptest"
	"os"
	"regexp"
	"strings"
	"sync"
	"time"

	"github.com/enbility/ship-go/api"
	"github.com/enbility/ship-go/cert"
	"github.com/enbility/ship-go/hub"
	"github.com/enbility/ship-go/util"
	"github.com/gorilla/websocket"

	"verifharness/vh"
)

type rowT struct {
	ID        int    `json:"id"`
	Dir       string `json:"dir"`
	Cert      bool   `json:"cert"`
	SkiLen    int    `json:"skiLen"`
	Len       int    `json:"len"`
	Binding   string `json:"binding"`
	TLS       int    `json:"tls"`
	Sub       string `json:"sub"`
	Presented string `json:"presented"`
	Subject   string `json:"subject"`
	Chain     string `json:"chain"` // what follows the leaf in the client's certificate chain: leaf (nothing) / plusVictim
}
type resT struct {
	Accepted        bool   `json:"accepted"`
	ShipSeen        bool   `json:"shipSeen"`
	Attributed      string `json:"attributed"`
	CertSki         string `json:"certSki"`
	SkiIs40LowerHex bool   `json:"skiIs40LowerHex"`
	SkiIsSha1OfKey  bool   `json:"skiIsSha1OfKey"`
	PassesGate      bool   `json:"passesGate"`
	Detail          string `json:"detail"`
}
type obsT struct {
	ID  int  `json:"id"`
	Row rowT `json:"row"`
	Res resT `json:"res"`
}

// ---------------------------------------------------------------- certificates

func keySki(pub *ecdsa.PublicKey) []byte {
	e, _ := pub.ECDH()
	s := sha1.Sum(e.Bytes()) // #nosec G401
	return s[:]
}

var victimSki []byte
var victimDER []byte // the victim's (public) certificate

func forge(skiLen int, binding string) (tls.Certificate, []byte) {
	priv, _ := ecdsa.GenerateKey(elliptic.P256(), rand.Reader)
	base := keySki(&priv.PublicKey)
	switch binding {
	case "copied":
		base = append([]byte{}, victimSki...)
	case "random":
		base = make([]byte, 20)
		_, _ = rand.Read(base)
	}
	// skiLen bytes: a prefix of the 20 byte value, or the value repeated; 0 = no SKI extension
	var ski []byte
	for len(ski) < skiLen {
		ski = append(ski, base[len(ski)%20])
	}
	serial, _ := rand.Int(rand.Reader, big.NewInt(1<<62))
	tpl := x509.Certificate{SignatureAlgorithm: x509.ECDSAWithSHA256, SerialNumber: serial, Subject: pkix.Name{CommonName: "forged"},
		NotBefore: time.Now().Add(-time.Hour), NotAfter: time.Now().Add(24 * time.Hour), KeyUsage: x509.KeyUsageDigitalSignature,
		BasicConstraintsValid: true, IsCA: false, SubjectKeyId: ski}
	der, err := x509.CreateCertificate(rand.Reader, &tpl, &tpl, &priv.PublicKey, priv)
	if err != nil {
		panic(err)
	}
	return tls.Certificate{Certificate: [][]byte{der}, PrivateKey: priv}, ski
}

// ---------------------------------------------------------------- hub under test

type recorder struct {
	mu   sync.Mutex
	skis []string
}

func (r *recorder) note(s string) {
	r.mu.Lock()
	r.skis = append(r.skis, util.NormalizeSKI(s))
	r.mu.Unlock()
}
func (r *recorder) last() string {
	r.mu.Lock()
	defer r.mu.Unlock()
	if len(r.skis) == 0 {
		return ""
	}
	return r.skis[len(r.skis)-1]
}
func (r *recorder) has(ski string) bool {
	r.mu.Lock()
	defer r.mu.Unlock()
	for _, s := range r.skis {
		if s == ski {
			return true
		}
	}
	return false
}
func (r *recorder) reset() { r.mu.Lock(); r.skis = nil; r.mu.Unlock() }

func (r *recorder) RemoteSKIConnected(ski string)    { r.note(ski) }
func (r *recorder) RemoteSKIDisconnected(ski string) {}
func (r *recorder) SetupRemoteDevice(ski string, _ api.ShipConnectionDataWriterInterface) api.ShipConnectionDataReaderInterface {
	return nil
}
func (r *recorder) VisibleRemoteServicesUpdated([]api.RemoteService)                    {}
func (r *recorder) ServiceShipIDUpdate(string, string)                                  {}
func (r *recorder) ServicePairingDetailUpdate(ski string, _ *api.ConnectionStateDetail) { r.note(ski) }
func (r *recorder) AllowWaitingForTrust(ski string) bool                                { r.note(ski); return true }

type fmdns struct{}

func (m *fmdns) Start(api.MdnsReportInterface) error { return nil }
func (m *fmdns) Shutdown()                           {}
func (m *fmdns) AnnounceMdnsEntry() error            { return nil }
func (m *fmdns) UnannounceMdnsEntry()                {}
func (m *fmdns) SetAutoAccept(bool)                  {}
func (m *fmdns) QRCodeText() string                  { return "" }
func (m *fmdns) RequestMdnsEntries()                 {}

func freePort() int { return vh.HubPort() }

var tlsVer = map[int]uint16{10: tls.VersionTLS10, 11: tls.VersionTLS11, 12: tls.VersionTLS12, 13: tls.VersionTLS13}

func inbound(r rowT, port int, rec *recorder) resT {
	res := resT{}
	rec.reset()
	cfg := &tls.Config{InsecureSkipVerify: true, MinVersion: tlsVer[r.TLS], MaxVersion: tlsVer[r.TLS]} // #nosec G402
	if r.TLS <= 12 {
		cfg.CipherSuites = append([]uint16{}, cert.CipherSuites...)
		cfg.CipherSuites = append(cfg.CipherSuites, tls.TLS_ECDHE_ECDSA_WITH_AES_128_CBC_SHA)
	}
	if r.Cert {
		c, ski := forge(r.SkiLen, r.Binding)
		if r.Chain == "plusVictim" {
			c.Certificate = append(c.Certificate, victimDER)
		}
		cfg.Certificates = []tls.Certificate{c}
		res.CertSki = hex.EncodeToString(ski)
	}
	d := websocket.Dialer{TLSClientConfig: cfg, HandshakeTimeout: 2 * time.Second}
	switch r.Sub {
	case "ship":
		d.Subprotocols = []string{"ship"}
	case "other":
		d.Subprotocols = []string{"other"}
	case "otherShip":
		d.Subprotocols = []string{"other", "ship"}
	}
	conn, resp, err := d.Dial(fmt.Sprintf("wss://127.0.0.1:%d/ship/", port), nil)
	if err != nil {
		res.Detail = "dial: " + err.Error()
		return res
	}
	if resp != nil && resp.Body != nil {
		resp.Body.Close()
	}
	defer conn.Close()
	res.Accepted = true
	// SHIP init: a hub that processes SHIP answers with its own init message
	_ = conn.WriteMessage(websocket.BinaryMessage, []byte{0, 0})
	_ = conn.SetReadDeadline(time.Now().Add(400 * time.Millisecond))
	for {
		mt, b, err := conn.ReadMessage()
		if err != nil {
			res.Detail = "read: " + err.Error()
			break
		}
		if mt == websocket.BinaryMessage && len(b) >= 2 {
			res.ShipSeen = true
			break
		}
	}
	if !res.ShipSeen {
		res.Accepted = false // the websocket was closed before any SHIP message was processed
	}
	time.Sleep(20 * time.Millisecond)
	// delayed notifications of earlier rows may still arrive: the connection is attributed to the certificate's SKI if the
	// hub named that SKI in a callback since this row started
	res.Attributed = rec.last()
	if rec.has(res.CertSki) {
		res.Attributed = res.CertSki
	}
	return res
}

func outbound(r rowT, h *hub.Hub) resT {
	res := resT{}
	victim, _ := forge(20, "ownKey")
	vcert, _ := x509.ParseCertificate(victim.Certificate[0])
	dialled := hex.EncodeToString(vcert.SubjectKeyId)
	present := victim
	switch r.Presented {
	case "sameSkiOtherKey":
		old := victimSki
		victimSki = vcert.SubjectKeyId
		present, _ = forge(20, "copied")
		victimSki = old
	case "other":
		present, _ = forge(20, "ownKey")
	case "otherPaired":
		var ski []byte
		present, ski = forge(20, "ownKey")
		h.RegisterRemoteSKI(hex.EncodeToString(ski))
		defer h.UnregisterRemoteSKI(hex.EncodeToString(ski))
	case "absent":
		present, _ = forge(0, "ownKey")
	case "ownLen":
		var ski []byte
		present, ski = forge(r.Len, "ownKey")
		dialled = hex.EncodeToString(ski)
	}
	got := make(chan bool, 4)
	up := websocket.Upgrader{Subprotocols: []string{"ship"}}
	srv := httptest.NewUnstartedServer(http.HandlerFunc(func(w http.ResponseWriter, rq *http.Request) {
		c, err := up.Upgrade(w, rq, nil)
		if err != nil {
			return
		}
		defer c.Close()
		_ = c.SetReadDeadline(time.Now().Add(600 * time.Millisecond))
		mt, b, err := c.ReadMessage()
		got <- err == nil && mt == websocket.BinaryMessage && bytes.Equal(b, []byte{0, 0})
	}))
	srv.TLS = &tls.Config{Certificates: []tls.Certificate{present}, ClientAuth: tls.RequestClientCert, MinVersion: tls.VersionTLS12} // #nosec G402
	srv.StartTLS()
	defer srv.Close()
	port := srv.Listener.Addr().(*net.TCPAddr).Port
	h.RegisterRemoteSKI(dialled)
	h.ReportMdnsEntries(map[string]*api.MdnsEntry{dialled: {Name: "victim", Ski: dialled, Identifier: "victim", Path: "/ship/", Host: "",
		Port: port, Addresses: []net.IP{net.ParseIP("127.0.0.1")}}}, true)
	deadline := time.After(1500 * time.Millisecond)
	for done := false; !done; {
		select {
		case ok := <-got:
			if ok {
				res.ShipSeen = true
				done = true
			}
		case <-deadline:
			done = true
		}
	}
	res.Accepted = res.ShipSeen
	h.UnregisterRemoteSKI(dialled)
	return res
}

var re40 = regexp.MustCompile(`^[0-9a-f]{40}$`)

func generator(r rowT, port int, rec *recorder) resT {
	res := resT{}
	subj := map[string][4]string{"plain": {"Unit", "Org", "DE", "model-serial"}, "empty": {"", "", "", ""},
		"utf8": {"Ünit", "Örg €", "DE", "модель-😀"}, "long": {strings.Repeat("u", 60), strings.Repeat("o", 60), "DE", strings.Repeat("c", 60)},
		"special": {"a=b,c", "o;x", "D", "cn/with\\chars\""}}[r.Subject]
	if r.Subject == "manyKeys" {
		// the generator draws a fresh key every time: the SKI has to be the SHA-1 of the key for every key, also for the one in
		// 128 whose coordinates have a leading zero byte
		subj = [4]string{"Unit", "Org", "DE", "many-keys"}
		for i := 0; i < 700; i++ {
			ci, err := cert.CreateCertificate(subj[0], subj[1], subj[2], subj[3])
			if err != nil {
				res.Detail = "create: " + err.Error()
				return res
			}
			li, err := x509.ParseCertificate(ci.Certificate[0])
			if err != nil {
				res.Detail = "parse: " + err.Error()
				return res
			}
			si, err := cert.SkiFromCertificate(li)
			pub, ok := li.PublicKey.(*ecdsa.PublicKey)
			if err != nil || !re40.MatchString(si) || !ok || !bytes.Equal(li.SubjectKeyId, keySki(pub)) {
				res.Detail = fmt.Sprintf("certificate %d of 700: SKI %s is not the SHA-1 of its key", i, si)
				res.SkiIs40LowerHex = err == nil && re40.MatchString(si)
				res.PassesGate = true
				return res
			}
		}
	}
	c, err := cert.CreateCertificate(subj[0], subj[1], subj[2], subj[3])
	if err != nil {
		res.Detail = "create: " + err.Error()
		return res
	}
	leaf, err := x509.ParseCertificate(c.Certificate[0])
	if err != nil {
		res.Detail = "parse: " + err.Error()
		return res
	}
	ski, err := cert.SkiFromCertificate(leaf)
	res.SkiIs40LowerHex = err == nil && re40.MatchString(ski)
	if pub, ok := leaf.PublicKey.(*ecdsa.PublicKey); ok {
		res.SkiIsSha1OfKey = bytes.Equal(leaf.SubjectKeyId, keySki(pub))
	}
	// passes the inbound gate of a real hub
	rec.reset()
	d := websocket.Dialer{TLSClientConfig: &tls.Config{InsecureSkipVerify: true, Certificates: []tls.Certificate{c}, CipherSuites: cert.CipherSuites}, // #nosec G402
		Subprotocols: []string{"ship"}, HandshakeTimeout: 2 * time.Second}
	conn, resp, err := d.Dial(fmt.Sprintf("wss://127.0.0.1:%d/ship/", port), nil)
	if err == nil {
		if resp != nil && resp.Body != nil {
			resp.Body.Close()
		}
		_ = conn.WriteMessage(websocket.BinaryMessage, []byte{0, 0})
		_ = conn.SetReadDeadline(time.Now().Add(400 * time.Millisecond))
		if mt, b, err := conn.ReadMessage(); err == nil && mt == websocket.BinaryMessage && len(b) >= 2 {
			res.PassesGate = true
		}
		conn.Close()
	} else {
		res.Detail = "dial: " + err.Error()
	}
	return res
}

func main() {
	in := flag.String("rows", "", "ndjson rows")
	obs := flag.String("obs", "", "ndjson observations")
	flag.Parse()
	var rows []rowT
	if err := vh.ReadLines(*in, func(b []byte) error {
		var r rowT
		if err := json.Unmarshal(b, &r); err != nil {
			return err
		}
		rows = append(rows, r)
		return nil
	}); err != nil || len(rows) == 0 {
		fmt.Fprintln(os.Stderr, "no rows:", err)
		os.Exit(2)
	}
	util.VerifSetDelayScale(0)
	v, _ := forge(20, "ownKey")
	vc, _ := x509.ParseCertificate(v.Certificate[0])
	victimSki = vc.SubjectKeyId
	victimDER = v.Certificate[0]
	hubCert, err := cert.CreateCertificate("unit", "org", "DE", "hub-under-test")
	if err != nil {
		fmt.Fprintln(os.Stderr, err)
		os.Exit(2)
	}
	leaf, _ := x509.ParseCertificate(hubCert.Certificate[0])
	localSki, _ := cert.SkiFromCertificate(leaf)
	rec := &recorder{}
	port := freePort()
	local := api.NewServiceDetails(localSki)
	local.SetShipID("hub-under-test")
	h := hub.NewHub(rec, &fmdns{}, port, hubCert, local)
	h.Start()
	time.Sleep(150 * time.Millisecond)
	out, err := vh.NewWriter(*obs)
	if err != nil {
		fmt.Fprintln(os.Stderr, err)
		os.Exit(2)
	}
	t0 := time.Now()
	for _, r := range rows {
		var res resT
		switch r.Dir {
		case "in":
			res = inbound(r, port, rec)
		case "out":
			res = outbound(r, h)
		case "gen":
			res = generator(r, port, rec)
		}
		out.Write(obsT{ID: r.ID, Row: r, Res: res})
	}
	out.Close()
	h.Shutdown()
	fmt.Printf("certgate: %d rows, %.1fs\n", len(rows), time.Since(t0).Seconds())
}
