package main

// Live observation of every ShipConnection the real hubs create (hooks ship.VerifWrap / ship.VerifEntry): the calls a
// connection makes on its info provider (the hub) and on its data writer (the websocket connection), the frames and
// errors the websocket connection hands to it, and the start / end of its other entry points (Run, timer expiry, approve,
// abort, close). One mutex-protected log per scenario orders the events; nothing is ordered by wall clock.

import (
	"bytes"
	"runtime"
	"strconv"
	"strings"
	"sync"
	"time"

	"github.com/enbility/ship-go/api"
	"github.com/enbility/ship-go/hub"
	"github.com/enbility/ship-go/model"
	"github.com/enbility/ship-go/ship"

	"verifharness/vh"
)

var hubNodes sync.Map // *hub.Hub -> *hubRef

// hubRef: the node a hub belongs to and which incarnation of it the hub is
type hubRef struct {
	n   *node
	gen int
}

type liveConn struct {
	id   int
	n    *node
	role string
	gen  int // incarnation of the hub that created the connection
	mu   sync.Mutex
	conn *ship.ShipConnection
	w    api.WebsocketDataWriterInterface
	open map[uint64]int // goroutine -> entries in progress on it (nested calls are not concurrency)
}

// goid is the number of the calling goroutine (entries nest on one goroutine: a failed send calls CloseConnection)
func goid() uint64 {
	var buf [64]byte
	b := buf[:runtime.Stack(buf[:], false)]
	b = bytes.TrimPrefix(b, []byte("goroutine "))
	if i := bytes.IndexByte(b, ' '); i > 0 {
		n, _ := strconv.ParseUint(string(b[:i]), 10, 64)
		return n
	}
	return 0
}

// begin notes an entry on the calling goroutine; it returns whether an entry on ANOTHER goroutine is in progress, whether
// this one is nested in an entry of the same goroutine, and the function that ends it
func (lc *liveConn) begin() (par, nested bool, end func()) {
	g := goid()
	lc.mu.Lock()
	if lc.open == nil {
		lc.open = map[uint64]int{}
	}
	for k, d := range lc.open {
		if k != g && d > 0 {
			par = true
		}
	}
	nested = lc.open[g] > 0
	lc.open[g]++
	lc.mu.Unlock()
	return par, nested, func() {
		lc.mu.Lock()
		lc.open[g]--
		if lc.open[g] == 0 {
			delete(lc.open, g)
		}
		lc.mu.Unlock()
	}
}

func (lc *liveConn) ev(k, v, id string) {
	// the incarnation is compared and the event appended in one step (the restart operation bumps the incarnation and logs
	// its start under the same lock): an event logged after "OpRestart" is never taken for one of the new incarnation
	lc.n.mu.Lock()
	old := lc.gen != lc.n.gen
	lc.n.l.addc(lc.n.name, lc.id, k, v, id, old)
	lc.n.mu.Unlock()
}

// entry / exit of an entry point; "par" marks an entry that started while another one was in progress
func (lc *liveConn) enter(kind string) func() {
	par, nested, end := lc.begin()
	if nested {
		return end
	}
	lc.ev("c.enter", kind, vh.B(par))
	return func() {
		end()
		lc.ev("c.leave", kind, "")
	}
}

type liveInfo struct {
	lc   *liveConn
	real api.ShipConnectionInfoProviderInterface
}

func (i *liveInfo) IsRemoteServiceForSKIPaired(ski string) bool {
	r := i.real.IsRemoteServiceForSKIPaired(ski)
	i.lc.ev("c.q", "paired", vh.B(r))
	return r
}
func (i *liveInfo) IsAutoAcceptEnabled() bool {
	r := i.real.IsAutoAcceptEnabled()
	i.lc.ev("c.q", "auto", vh.B(r))
	return r
}
func (i *liveInfo) AllowWaitingForTrust(ski string) bool { return i.real.AllowWaitingForTrust(ski) }
func (i *liveInfo) HandleConnectionClosed(c api.ShipConnectionInterface, completed bool) {
	i.lc.ev("c.closed", vh.B(completed), "")
	i.real.HandleConnectionClosed(c, completed)
}
func (i *liveInfo) ReportServiceShipID(ski string, id string) {
	i.lc.ev("c.id", vh.AbsID(id), "")
	i.real.ReportServiceShipID(ski, id)
}
func (i *liveInfo) HandleShipHandshakeStateUpdate(ski string, s model.ShipState) {
	i.lc.ev("c.rep", vh.StName(s.State), "")
	if d := i.lc.n.holdHello; d > 0 && s.State == model.SmeHelloStateOk {
		// the goroutine that reports hello-ok is held for a moment before the hub hears of it (a legal schedule: it may be
		// preempted there), so that an Unregister / Cancel from the user's goroutine falls before the report
		time.Sleep(d)
	}
	i.real.HandleShipHandshakeStateUpdate(ski, s)
}
func (i *liveInfo) SetupRemoteDevice(ski string, w api.ShipConnectionDataWriterInterface) api.ShipConnectionDataReaderInterface {
	if d := i.lc.n.holdComplete; d > 0 {
		// the goroutine that completes the handshake is held for a moment just before it sets the device up (a legal schedule:
		// it may be preempted there), so that a close from another goroutine falls before the set-up
		time.Sleep(d)
	}
	i.lc.ev("c.setup", "1", "")
	r := i.real.SetupRemoteDevice(ski, w)
	if r == nil {
		return nil
	}
	return &liveReader{lc: i.lc, real: r}
}

type liveReader struct {
	lc   *liveConn
	real api.ShipConnectionDataReaderInterface
}

func (r *liveReader) HandleShipPayloadMessage(m []byte) {
	id := "?"
	if x := vh.ReN.FindSubmatch(m); x != nil {
		id = string(x[1])
	}
	r.lc.ev("c.deliver", id, "")
	r.real.HandleShipPayloadMessage(m)
}

type liveWriter struct {
	lc   *liveConn
	real api.WebsocketDataWriterInterface
}

func (w *liveWriter) InitDataProcessing(p api.WebsocketDataReaderInterface) {
	w.real.InitDataProcessing(&liveProc{lc: w.lc, real: p})
}
func (w *liveWriter) WriteMessageToWebsocketConnection(m []byte) error {
	err := w.real.WriteMessageToWebsocketConnection(m)
	if err == nil {
		k, v, id := vh.Classify(m)
		w.lc.ev("c."+k, v, id)
	}
	return err
}
func (w *liveWriter) CloseDataConnection(code int, reason string) {
	w.real.CloseDataConnection(code, reason)
	// logged once the websocket connection is marked closed: no write can succeed after this event
	w.lc.ev("c.close", strconv.Itoa(code), "")
}
func (w *liveWriter) IsDataConnectionClosed() (bool, error) { return w.real.IsDataConnectionClosed() }

type liveProc struct {
	lc   *liveConn
	real api.WebsocketDataReaderInterface
}

func (p *liveProc) HandleIncomingWebsocketMessage(m []byte) {
	_, v, id := vh.Classify(m)
	if strings.HasPrefix(v, "acc.") {
		v = "acc"
	}
	par, _, end := p.lc.begin()
	p.lc.ev("c.in", v, id)
	if par {
		p.lc.ev("c.enter", "in", vh.B(true))
	}
	p.real.HandleIncomingWebsocketMessage(m)
	end()
	p.lc.ev("c.leave", "in", "")
}
func (p *liveProc) ReportConnectionError(err error) {
	defer p.lc.enter("err")()
	p.real.ReportConnectionError(err)
}

func installLive() {
	hub.VerifPoint = func(h *hub.Hub, name string) {
		x, ok := hubNodes.Load(h)
		if !ok || name != "cancel-pairing-after-lookup" {
			return
		}
		n := x.(*hubRef).n
		for i := 0; i < 150; i++ {
			n.mu.Lock()
			on, grown := n.gateOn, n.nconn > n.gateBase
			n.mu.Unlock()
			if !on {
				return
			}
			if grown {
				n.l.add(n.name, "Gate", "a-dial-became-a-connection")
				return
			}
			time.Sleep(2 * time.Millisecond)
		}
		n.l.add(n.name, "Gate", "nothing-happened")
	}
	ship.VerifWrap = func(p api.ShipConnectionInfoProviderInterface, w api.WebsocketDataWriterInterface, role string, _ string) (api.ShipConnectionInfoProviderInterface, api.WebsocketDataWriterInterface) {
		h, ok := p.(*hub.Hub)
		if !ok {
			return p, w
		}
		x, ok := hubNodes.Load(h)
		if !ok {
			return p, w
		}
		ref := x.(*hubRef)
		n := ref.n
		n.mu.Lock()
		n.nconn++
		lc := &liveConn{id: n.connBase + n.nconn, n: n, role: role, w: w, gen: ref.gen}
		n.conns = append(n.conns, lc)
		n.mu.Unlock()
		lc.ev("c.new", role, "")
		return &liveInfo{lc: lc, real: p}, &liveWriter{lc: lc, real: w}
	}
	ship.VerifEntry = func(c *ship.ShipConnection, kind string) func() {
		lw, ok := c.DataHandler().(*liveWriter)
		if !ok {
			return func() {}
		}
		lw.lc.mu.Lock()
		lw.lc.conn = c
		lw.lc.mu.Unlock()
		return lw.lc.enter(kind)
	}
}

// connObs is the recorded history of one ShipConnection plus its state when the scenario had come to rest
type connEv struct {
	K   string `json:"k"`
	V   string `json:"v"`
	ID  string `json:"id"`
	Par bool   `json:"par"` // two entry points of this connection had overlapped at or before this event
}
type connObs struct {
	C      int      `json:"c"`
	H      string   `json:"h"`
	Role   string   `json:"role"`
	Stored string   `json:"stored"` // the SHIP id the hub knew for the peer when the scenario started: none / A / B / other
	Evs    []connEv `json:"evs"`
	St     string   `json:"st"`
	TRun   bool     `json:"tRun"`
	WsOpen bool     `json:"wsOpen"`
	Buf    int      `json:"buf"`
	Ran    bool     `json:"ran"`
}

func collectConns(nodes map[string]*node, events []evT, stored map[string]string) []connObs {
	by := map[int]*connObs{}
	var order []int
	par := map[int]bool{}
	for _, name := range []string{"A", "B"} {
		n := nodes[name]
		n.mu.Lock()
		cs := append([]*liveConn{}, n.conns...)
		n.mu.Unlock()
		for _, lc := range cs {
			o := &connObs{C: lc.id, H: name, Role: lc.role, Stored: stored[name], Evs: []connEv{}, St: "InitStart", WsOpen: true}
			lc.mu.Lock()
			c := lc.conn
			lc.mu.Unlock()
			closed, _ := lc.w.IsDataConnectionClosed()
			o.WsOpen = !closed
			if c != nil {
				sn := c.VerifSnapshot()
				o.St, o.TRun, o.Buf, o.Ran = vh.StName(sn.State), sn.TimerRunning, sn.BufLen, true
			}
			by[lc.id] = o
			order = append(order, lc.id)
		}
	}
	for _, e := range events {
		if e.C == 0 {
			continue
		}
		o, ok := by[e.C]
		if !ok || len(e.Ev) < 3 {
			continue
		}
		k := e.Ev[2:]
		if k == "enter" && e.ID == vh.B(true) {
			par[e.C] = true
		}
		if k == "enter" && e.V == "in" {
			continue // only there to mark the overlap
		}
		id := e.ID
		if k == "enter" {
			id = ""
		}
		o.Evs = append(o.Evs, connEv{K: k, V: e.V, ID: id, Par: par[e.C]})
	}
	out := []connObs{}
	for _, id := range order {
		out = append(out, *by[id])
	}
	return out
}
