// Command hub2 runs environment scripts (spec/Hub2.tla) on two REAL hubs in one process (C05, and the integrated view of
// C03 C06 C09 C10 C11 C18): real TLS websockets over loopback, each hub's mDNS is the real MdnsManager over a stand-in
// provider joined by a harness "ether" (announcements of one hub are delivered to the other manager's resolver callback),
// and a TCP proxy in front of every hub lets the harness count and cut streams. The random dial back-off is scaled down
// through the verif delay hook; every other delay of the library is real. At quiescence the registries, the open streams,
// the reader callbacks and a payload echo in both directions are recorded for the TLC monitor pass (spec/MonHub2.tla).
package main

import (
	"crypto/tls"
	"crypto/x509"
	"encoding/json"
	"flag"
	"fmt"
	"io"
	"log"
	"net"
	"os"
	"regexp"
	"strconv"
	"sync"
	"sync/atomic"
	"time"

	"github.com/enbility/ship-go/api"
	"github.com/enbility/ship-go/cert"
	"github.com/enbility/ship-go/hub"
	"github.com/enbility/ship-go/mdns"
	"github.com/enbility/ship-go/model"
	"github.com/enbility/ship-go/util"

	"verifharness/vh"
)

type opT struct {
	Op string `json:"op"`
	H  string `json:"h"`
	Ms int    `json:"ms"`
	St string `json:"st"` // what the model's registry of hub H held for the peer at this step: none / setup / done
}
type scriptT struct {
	ID    int               `json:"id"`
	IDs   map[string]string `json:"ids"`  // per hub: the SHIP id its application stored for the peer: "" / none, right, wrong
	High  string            `json:"high"` // which hub has the higher SKI
	Ops   []opT             `json:"ops"`
	Burst int               `json:"burst"` // resolver events per appearance (avahi reports one per address)
	// a slow network: an accepted connection reaches the hub only after this many milliseconds, so what the users do next falls
	// into the time a dial takes (TCP, TLS and websocket handshake are never instantaneous outside a test bench)
	SlowDial int `json:"slowDial"`
	// CancelPairingWithSKI pauses between its look into the registry and its clearing of the trust (hook hub.VerifPoint) until
	// a dial that is under way has become a connection, at most 300 ms: a legal schedule of the call made likely
	Gate bool `json:"gate"`
	// the hub's report of a completed handshake takes this many milliseconds (a slow application)
	HoldComplete int `json:"holdComplete"`
	// the hub hears of a connection's hello-ok this many milliseconds late (used to demonstrate a known finding, not by the
	// generated scripts)
	HoldHello int `json:"holdHello"`
}

type evT struct {
	Seq int    `json:"seq"`
	T   int64  `json:"t"`
	H   string `json:"h"`
	Ev  string `json:"ev"`
	V   string `json:"v"`
	C   int    `json:"c,omitempty"`   // connection number (events of one ShipConnection, see live.go)
	ID  string `json:"id,omitempty"`  // payload / SHIP id carried by a frame
	N   int    `json:"n,omitempty"`   // further identical events that followed immediately
	Old bool   `json:"old,omitempty"` // an event of a connection of an earlier incarnation of the hub (it was restarted since)
}

type hubObs struct {
	Registered  bool     `json:"registered"` // a connection for the other hub's SKI is registered
	State       string   `json:"state"`      // its handshake state
	Trusted     bool     `json:"trusted"`    // ServiceForSKI(other).Trusted()
	Detail      string   `json:"detail"`     // PairingDetailForSki(other)
	LastWord    string   `json:"lastWord"`   // last of Setup / Disconnected seen by the application
	LastNote    string   `json:"lastNote"`   // last pairing-state notification
	Setups      int      `json:"setups"`
	Disconnects int      `json:"disconnects"`
	ShipIDs     int      `json:"shipIds"`
	Received    []string `json:"received"` // payloads the application received, in order
	EchoOut     bool     `json:"echoOut"`  // a payload written now arrives at the peer application
	AttemptRun  bool     `json:"attemptRunning"`
	AttemptCnt  int      `json:"attemptCounter"`
}
type obsT struct {
	ID          int                 `json:"id"`
	Script      scriptT             `json:"script"`
	Events      []evT               `json:"events"`
	Hubs        map[string]hubObs   `json:"hubs"`
	OpenStreams int                 `json:"openStreams"`
	Streams     int                 `json:"streams"`
	Stable      bool                `json:"stable"`  // both registered each other and see each other at the end
	Settled     bool                `json:"settled"` // the observation was taken at rest
	Stuck       bool                `json:"stuck"`   // never at rest, and a pair that ought to be connected was not for the whole budget
	ShutDown    map[string]bool     `json:"shutDown"`
	UserReg     map[string]bool     `json:"userReg"` // the user's last word for the peer's SKI was Register
	AutoOn      map[string]bool     `json:"autoOn"`  // auto accept is switched on at the end
	Sent        map[string][]string `json:"sent"`
	Conns       []connObs           `json:"conns"` // every ShipConnection the hubs created, as recorded by the wrappers
}

const maxEvents = 20000 // a scenario that logs more than this is a runaway loop: it is reported as not at rest

type elog struct {
	flood bool
	mu    sync.Mutex
	start time.Time
	ev    []evT
	last  time.Time
}

func (l *elog) add(h, ev, v string) {
	l.mu.Lock()
	// an identical event repeated back to back (a re-announcement loop) is counted, not listed
	if k := len(l.ev); k > 0 && (ev == "Announce" || ev == "Unannounce") && l.ev[k-1].Ev == ev && l.ev[k-1].H == h {
		l.ev[k-1].N++
		l.last = time.Now()
		l.mu.Unlock()
		return
	}
	if len(l.ev) >= maxEvents {
		l.flood = true
		l.last = time.Now()
		l.mu.Unlock()
		return
	}
	l.ev = append(l.ev, evT{Seq: len(l.ev) + 1, T: time.Since(l.start).Milliseconds(), H: h, Ev: ev, V: v})
	l.last = time.Now()
	l.mu.Unlock()
}
func (l *elog) addc(h string, c int, ev, v, id string, old bool) {
	l.mu.Lock()
	if len(l.ev) >= maxEvents {
		l.flood = true
		l.last = time.Now()
		l.mu.Unlock()
		return
	}
	l.ev = append(l.ev, evT{Seq: len(l.ev) + 1, T: time.Since(l.start).Milliseconds(), H: h, Ev: ev, V: v, C: c, ID: id, Old: old})
	l.last = time.Now()
	l.mu.Unlock()
}
func (l *elog) flooded() bool           { l.mu.Lock(); defer l.mu.Unlock(); return l.flood }
func (l *elog) quietFor() time.Duration { l.mu.Lock(); defer l.mu.Unlock(); return time.Since(l.last) }

// ---------------------------------------------------------------- TCP proxy in front of a hub

type proxy struct {
	l       net.Listener
	target  string
	mu      sync.Mutex
	open    map[int][2]net.Conn
	next    int
	total   atomic.Int32
	blocked atomic.Bool
	down    atomic.Bool // the hub behind the proxy was shut down: streams are still logged, but go nowhere (its port may belong to somebody else by now)
	onOpen  func()
	slow    time.Duration
}

func newProxy(target string) *proxy {
	// every loopback address reaches the hub (the ether announces 127.0.0.1 .. 127.0.0.3)
	l, err := vh.Listen("0.0.0.0:0")
	if err != nil {
		panic(err)
	}
	p := &proxy{l: l, target: target, open: map[int][2]net.Conn{}}
	go func() {
		for {
			c, err := l.Accept()
			if err != nil {
				return
			}
			if p.blocked.Load() {
				_ = c.Close()
				continue
			}
			// logged as soon as the dialler's connection is accepted: connecting on to the hub takes its own time (a hub
			// that is restarting), which must not be mistaken for a late dial
			if p.onOpen != nil {
				p.onOpen()
			}
			if p.down.Load() {
				_ = c.Close()
				continue
			}
			go func() { // the accept loop goes on at once
				if p.slow > 0 {
					time.Sleep(p.slow)
				}
				d, err := net.Dial("tcp", target)
				if err != nil {
					_ = c.Close()
					return
				}
				p.total.Add(1)
				p.mu.Lock()
				id := p.next
				p.next++
				p.open[id] = [2]net.Conn{c, d}
				p.mu.Unlock()
				done := func() {
					_ = c.Close()
					_ = d.Close()
					p.mu.Lock()
					delete(p.open, id)
					p.mu.Unlock()
				}
				go func() { _, _ = io.Copy(d, c); done() }()
				go func() { _, _ = io.Copy(c, d); done() }()
			}()
		}
	}()
	return p
}
func (p *proxy) port() int { return p.l.Addr().(*net.TCPAddr).Port }
func (p *proxy) cut() {
	p.mu.Lock()
	for _, cs := range p.open {
		_ = cs[0].Close()
		_ = cs[1].Close()
	}
	p.mu.Unlock()
}
func (p *proxy) nopen() int { p.mu.Lock(); defer p.mu.Unlock(); return len(p.open) }

// ---------------------------------------------------------------- one hub with its neighbours

type provider struct {
	n   *node
	txt []string
	ann bool
}

func (p *provider) Start(bool, api.MdnsResolveCB) bool { return true }
func (p *provider) Shutdown()                          {}
func (p *provider) Announce(_ string, _ int, txt []string) error {
	p.n.eth.announce(p.n, txt)
	return nil
}
func (p *provider) Unannounce() { p.n.eth.unannounce(p.n) }

// mdnsAdapter is the api.MdnsInterface the hub gets: the real manager, started on the stand-in provider
type mdnsAdapter struct {
	m *mdns.MdnsManager
	p *provider
}

func (a *mdnsAdapter) Start(cb api.MdnsReportInterface) error {
	return a.m.VerifStartWithProvider(cb, a.p)
}
func (a *mdnsAdapter) Shutdown()                { a.m.Shutdown() }
func (a *mdnsAdapter) AnnounceMdnsEntry() error { return a.m.AnnounceMdnsEntry() }
func (a *mdnsAdapter) UnannounceMdnsEntry()     { a.m.UnannounceMdnsEntry() }
func (a *mdnsAdapter) SetAutoAccept(b bool)     { a.m.SetAutoAccept(b) }
func (a *mdnsAdapter) QRCodeText() string       { return a.m.QRCodeText() }
func (a *mdnsAdapter) RequestMdnsEntries()      { a.m.RequestMdnsEntries() }

type appReader struct{ n *node }

var reN = regexp.MustCompile(`"n":"([^"]*)"`)

func (r *appReader) HandleShipPayloadMessage(m []byte) {
	id := "?"
	if x := reN.FindSubmatch(m); x != nil {
		id = string(x[1])
	}
	r.n.mu.Lock()
	r.n.received = append(r.n.received, id)
	r.n.mu.Unlock()
	r.n.l.add(r.n.name, "Payload", id)
}

type node struct {
	name         string
	ski          string
	l            *elog
	eth          *ether
	h            *hub.Hub
	mgr          *mdns.MdnsManager
	prov         *provider
	px           *proxy
	mu           sync.Mutex
	writer       api.ShipConnectionDataWriterInterface
	writers      []api.ShipConnectionDataWriterInterface
	received     []string
	sent         []string
	lastWord     string
	lastNote     string
	setups       int
	discs        int
	shipIDs      int
	nsent        int
	gen          int
	inboxMu      sync.Mutex
	inbox        []func()
	inboxBusy    bool
	conns        []*liveConn // live.go
	nconn        int
	gateOn       bool
	gateBase     int
	holdComplete time.Duration
	holdHello    time.Duration
	connBase     int
}

// gate is the HubReaderInterface of one incarnation of a hub
type gate struct {
	n   *node
	gen int
}

func (g *gate) live() bool { g.n.mu.Lock(); defer g.n.mu.Unlock(); return g.gen == g.n.gen }
func (g *gate) RemoteSKIConnected(ski string) {
	if g.live() {
		g.n.RemoteSKIConnected(ski)
	}
}
func (g *gate) RemoteSKIDisconnected(ski string) {
	if g.live() {
		g.n.RemoteSKIDisconnected(ski)
	}
}
func (g *gate) SetupRemoteDevice(ski string, w api.ShipConnectionDataWriterInterface) api.ShipConnectionDataReaderInterface {
	if g.live() {
		return g.n.SetupRemoteDevice(ski, w)
	}
	return nullReader{}
}

type nullReader struct{}

func (nullReader) HandleShipPayloadMessage([]byte)                 {}
func (g *gate) VisibleRemoteServicesUpdated(e []api.RemoteService) {}
func (g *gate) ServiceShipIDUpdate(ski string, id string) {
	if g.live() {
		g.n.ServiceShipIDUpdate(ski, id)
	}
}
func (g *gate) ServicePairingDetailUpdate(ski string, d *api.ConnectionStateDetail) {
	if g.live() {
		g.n.ServicePairingDetailUpdate(ski, d)
	}
}
func (g *gate) AllowWaitingForTrust(ski string) bool { return g.n.AllowWaitingForTrust(ski) }

var csNames = []string{"None", "Queued", "Initiated", "ReceivedPairingRequest", "InProgress", "Trusted", "Pin", "Completed", "RemoteDeniedTrust", "Error"}

func (n *node) RemoteSKIConnected(ski string) { n.l.add(n.name, "Connected", "") }
func (n *node) RemoteSKIDisconnected(ski string) {
	n.mu.Lock()
	n.lastWord = "Disconnected"
	n.discs++
	n.mu.Unlock()
	n.l.add(n.name, "Disconnected", "")
}
func (n *node) SetupRemoteDevice(ski string, w api.ShipConnectionDataWriterInterface) api.ShipConnectionDataReaderInterface {
	n.mu.Lock()
	n.writer = w
	n.writers = append(n.writers, w)
	n.lastWord = "Setup"
	n.setups++
	n.mu.Unlock()
	n.l.add(n.name, "Setup", "")
	// the earliest legal moment to write: the peer is typically not complete yet
	go n.send(w, 2)
	return &appReader{n}
}
func (n *node) send(w api.ShipConnectionDataWriterInterface, k int) {
	for i := 0; i < k; i++ {
		n.mu.Lock()
		n.nsent++
		id := n.name + strconv.Itoa(n.nsent)
		n.sent = append(n.sent, id)
		n.mu.Unlock()
		w.WriteShipMessageWithPayload([]byte(fmt.Sprintf(`{"datagram":{"n":"%s"}}`, id)))
	}
}
func (n *node) VisibleRemoteServicesUpdated(e []api.RemoteService) {}
func (n *node) ServiceShipIDUpdate(ski string, id string) {
	n.mu.Lock()
	n.shipIDs++
	n.mu.Unlock()
	n.l.add(n.name, "ShipID", id)
}
func (n *node) ServicePairingDetailUpdate(ski string, d *api.ConnectionStateDetail) {
	s := csNames[d.State()]
	n.mu.Lock()
	n.lastNote = s
	n.mu.Unlock()
	n.l.add(n.name, "Note", s)
}
func (n *node) AllowWaitingForTrust(string) bool { return true }

// ---------------------------------------------------------------- ether: who sees whose announcement

type ether struct {
	mu      sync.Mutex
	nodes   map[string]*node
	txt     map[string][]string // current announcement of a hub
	visible map[string]bool     // visible[h]: h sees the other hub
	burst   int
}

func (e *ether) other(n *node) *node {
	for k, v := range e.nodes {
		if k != n.name {
			return v
		}
	}
	return nil
}
func (e *ether) announce(n *node, txt []string) {
	e.mu.Lock()
	e.txt[n.name] = append([]string{}, txt...)
	o := e.other(n)
	vis := o != nil && e.visible[o.name]
	e.mu.Unlock()
	n.l.add(n.name, "Announce", "")
	if vis {
		o.post(func() { e.deliver(o, n, false) })
	}
}
func (e *ether) unannounce(n *node) {
	e.mu.Lock()
	delete(e.txt, n.name)
	o := e.other(n)
	vis := o != nil && e.visible[o.name]
	e.mu.Unlock()
	n.l.add(n.name, "Unannounce", "")
	if vis {
		o.post(func() { e.deliver(o, n, true) })
	}
}

// what a node hears on mDNS arrives in the order it was sent: one inbox per node, worked off by one goroutine
func (n *node) post(f func()) {
	n.inboxMu.Lock()
	n.inbox = append(n.inbox, f)
	start := !n.inboxBusy
	n.inboxBusy = true
	n.inboxMu.Unlock()
	if start {
		go func() {
			for {
				n.inboxMu.Lock()
				if len(n.inbox) == 0 {
					n.inboxBusy = false
					n.inboxMu.Unlock()
					return
				}
				g := n.inbox[0]
				n.inbox = n.inbox[1:]
				n.inboxMu.Unlock()
				g()
			}
		}()
	}
}

// postWait delivers in order and waits until it is done
func (n *node) postWait(f func()) {
	done := make(chan struct{})
	n.post(func() { f(); close(done) })
	<-done
}

// deliver the announcement of `from` to the manager of `to` (one resolver event per address, like avahi)
func (e *ether) deliver(to, from *node, remove bool) {
	e.mu.Lock()
	txt := e.txt[from.name]
	burst := e.burst
	mgr := to.mgr
	e.mu.Unlock()
	if mgr == nil {
		return
	}
	cb := mgr.VerifResolveCB()
	if cb == nil {
		return
	}
	if remove {
		cb(mdns.VerifParseTxt([]string{"txtvers=1", "id=" + from.name, "path=/ship/", "ski=" + from.ski, "register=false"}), from.name, "host-"+from.name, nil, -1, true)
		return
	}
	if txt == nil {
		return
	}
	addrs := []string{"127.0.0.1", "127.0.0.2", "127.0.0.3"}
	for i := 0; i < burst && i < len(addrs); i++ {
		cb(mdns.VerifParseTxt(txt), from.name, "", []net.IP{net.ParseIP(addrs[i])}, from.px.port(), false)
		time.Sleep(time.Millisecond)
	}
}

// ---------------------------------------------------------------- scenario

func newCert(name string) (tls.Certificate, string) {
	c, err := cert.CreateCertificate("unit", "org", "DE", name)
	if err != nil {
		panic(err)
	}
	leaf, _ := x509.ParseCertificate(c.Certificate[0])
	ski, _ := cert.SkiFromCertificate(leaf)
	return c, ski
}

func otherName(h string) string {
	if h == "A" {
		return "B"
	}
	return "A"
}

func freePort() int { return vh.HubPort() }

var stNames = map[model.ShipMessageExchangeState]string{38: "Complete", 39: "Error"}

func runScript(s scriptT) obsT {
	l := &elog{start: time.Now(), last: time.Now()}
	eth := &ether{nodes: map[string]*node{}, txt: map[string][]string{}, visible: map[string]bool{}, burst: s.Burst}
	if eth.burst <= 0 {
		eth.burst = 1
	}
	cA, sA := newCert("hubA")
	cB, sB := newCert("hubB")
	if (s.High == "A") != (sA > sB) {
		cA, sA, cB, sB = cB, sB, cA, sA
	}
	certs := map[string]tls.Certificate{"A": cA, "B": cB}
	skis := map[string]string{"A": sA, "B": sB}
	shut := map[string]bool{"A": false, "B": false}
	ports := map[string]int{}
	build := func(n *node) {
		name := n.name
		mgr := mdns.NewMDNS(n.ski, "brand", "model", "type", "serial-"+name, []api.DeviceCategoryType{1}, "shipid-"+name, "service-"+name, ports[name], nil, mdns.MdnsProviderSelectionAll)
		eth.mu.Lock()
		n.mgr = mgr
		eth.mu.Unlock()
		local := api.NewServiceDetails(n.ski)
		local.SetShipID("shipid-" + name)
		n.mu.Lock()
		g := n.gen
		n.mu.Unlock()
		// callbacks of an earlier incarnation (goroutines that outlive its Shutdown) do not reach the restarted application
		n.h = hub.NewHub(&gate{n: n, gen: g}, &mdnsAdapter{m: mgr, p: n.prov}, ports[name], certs[name], local)
		hubNodes.Store(n.h, &hubRef{n: n, gen: g})
		// what the application knows about the peer from earlier sessions: its SHIP id (C09)
		switch s.IDs[name] {
		case "right":
			n.h.ServiceForSKI(skis[otherName(name)]).SetShipID("shipid-" + otherName(name))
		case "wrong":
			n.h.ServiceForSKI(skis[otherName(name)]).SetShipID("shipid-" + name)
		}
	}
	for _, name := range []string{"A", "B"} {
		n := &node{name: name, ski: skis[name], l: l, eth: eth, gen: 1}
		if name == "B" {
			n.connBase = 1000
		}
		ports[name] = freePort()
		n.px = newProxy(fmt.Sprintf("127.0.0.1:%d", ports[name]))
		n.px.slow = time.Duration(s.SlowDial) * time.Millisecond
		n.holdComplete = time.Duration(s.HoldComplete) * time.Millisecond
		n.holdHello = time.Duration(s.HoldHello) * time.Millisecond
		hn := name
		n.px.onOpen = func() { l.add(hn, "StreamOpen", "") } // a stream towards hub hn: its peer dialled
		n.prov = &provider{n: n}
		build(n)
		eth.nodes[name] = n
	}
	for _, name := range []string{"A", "B"} {
		eth.nodes[name].h.Start()
	}
	time.Sleep(120 * time.Millisecond) // servers listening
	other := map[string]string{"A": "B", "B": "A"}
	registered := map[string]bool{}
	autoOn := map[string]bool{}
	for _, op := range s.Ops {
		if l.flooded() {
			break // a runaway loop (section 8 of DESIGN.md: a queued service that cannot be reached): the scenario is given up
		}
		n := eth.nodes[op.H]
		// the model took this step with a connection registered at the hub (being set up, or completed): give the real hub
		// the time to get there, then act at once
		if n != nil && op.Op != "Disconnect" && (op.St == "setup" || op.St == "done") {
			for t := 0; t < 400; t++ {
				if c, ok := n.h.VerifRegistry()[skis[other[op.H]]]; ok {
					if st, _ := c.ShipHandshakeState(); op.St == "setup" || st == model.SmeStateComplete {
						break
					}
				}
				time.Sleep(5 * time.Millisecond)
			}
		}
		switch op.Op {
		case "Register":
			l.add(op.H, "OpRegister", "")
			n.h.RegisterRemoteSKI(skis[other[op.H]])
			registered[op.H] = true
			l.add(op.H, "OpRegisterEnd", "")
		case "Unregister":
			l.add(op.H, "OpUnregister", "")
			n.h.UnregisterRemoteSKI(skis[other[op.H]])
			registered[op.H] = false
			l.add(op.H, "OpUnregisterEnd", "")
		case "Cancel":
			l.add(op.H, "OpCancel", "")
			n.mu.Lock()
			n.gateOn, n.gateBase = s.Gate, n.nconn
			n.mu.Unlock()
			n.h.CancelPairingWithSKI(skis[other[op.H]])
			n.mu.Lock()
			n.gateOn = false
			n.mu.Unlock()
			registered[op.H] = false
			l.add(op.H, "OpCancelEnd", "")
		case "AutoOn", "AutoOff":
			l.add(op.H, "Op"+op.Op, "")
			n.h.SetAutoAccept(op.Op == "AutoOn")
			autoOn[op.H] = op.Op == "AutoOn"
			l.add(op.H, "Op"+op.Op+"End", "")
		case "Appear": // op.H starts to see the other hub
			eth.mu.Lock()
			eth.visible[op.H] = true
			eth.mu.Unlock()
			l.add(op.H, "OpAppear", "")
			n.postWait(func() { eth.deliver(n, eth.nodes[other[op.H]], false) })
		case "Disappear":
			eth.mu.Lock()
			eth.visible[op.H] = false
			eth.mu.Unlock()
			l.add(op.H, "OpDisappear", "")
			n.postWait(func() { eth.deliver(n, eth.nodes[other[op.H]], true) })
		case "Disconnect":
			// the model disconnects a completed connection: wait for it (bounded), then disconnect at once
			for t := 0; t < 600; t++ {
				if c, ok := n.h.VerifRegistry()[skis[other[op.H]]]; ok {
					if st, _ := c.ShipHandshakeState(); st == model.SmeStateComplete {
						break
					}
				}
				time.Sleep(5 * time.Millisecond)
			}
			l.add(op.H, "OpDisconnect", "")
			n.h.DisconnectSKI(skis[other[op.H]], "user disconnect")
		case "Cut":
			for t := 0; t < 400 && eth.nodes["A"].px.nopen()+eth.nodes["B"].px.nopen() == 0; t++ {
				time.Sleep(5 * time.Millisecond)
			}
			l.add("", "OpCut", "")
			eth.nodes["A"].px.cut()
			eth.nodes["B"].px.cut()
		case "Shutdown":
			l.add(op.H, "OpShutdown", "")
			n.h.Shutdown()
			n.px.down.Store(true)
			shut[op.H] = true
			eth.mu.Lock()
			eth.visible[other[op.H]] = false // the peer cannot see a hub that is down
			eth.mu.Unlock()
			l.add(op.H, "OpShutdownEnd", "")
		case "Restart":
			// the device restarts: hub, mDNS manager and application state are new, identity (certificate, port) and the user's
			// pairing decisions are the same
			// from here on the incarnation that goes down no longer counts: its callbacks do not reach the (restarted) application,
			// and what it still answers its connections while it shuts down is not judged against the new incarnation's history
			n.mu.Lock()
			n.gen++
			l.add(op.H, "OpRestart", "")
			n.mu.Unlock()
			n.h.Shutdown()
			n.mu.Lock()
			n.lastWord, n.lastNote = "", ""
			n.writer, n.writers = nil, nil
			n.mu.Unlock()
			build(n)
			n.h.Start()
			time.Sleep(60 * time.Millisecond) // server listening
			if autoOn[op.H] {
				l.add(op.H, "OpAutoOn", "")
				n.h.SetAutoAccept(true)
				l.add(op.H, "OpAutoOnEnd", "")
			}
			if registered[op.H] {
				l.add(op.H, "OpRegister", "")
				n.h.RegisterRemoteSKI(skis[other[op.H]])
				l.add(op.H, "OpRegisterEnd", "")
			}
			eth.mu.Lock()
			sees := eth.visible[op.H]
			eth.mu.Unlock()
			if sees {
				n.postWait(func() { eth.deliver(n, eth.nodes[other[op.H]], false) })
			}
			l.add(op.H, "OpRestartEnd", "")
		case "Sleep":
			time.Sleep(time.Duration(op.Ms) * time.Millisecond)
		case "Settle":
			settle(l, 1200*time.Millisecond, 12*time.Second)
		}
	}
	// quiescence: no event for 1.5 s and no registered connection in the middle of its handshake (its 10 s / 60 s timers
	// are armed then and the library will still act)
	settled := false
	wanted, unconnected := false, false
	for round := 0; round < 8 && !settled && !l.flooded(); round++ {
		quiet := settle(l, 1500*time.Millisecond, 15*time.Second)
		busy := false
		for name, n := range eth.nodes {
			if c, ok := n.h.VerifRegistry()[skis[other[name]]]; ok {
				if st, _ := c.ShipHandshakeState(); st != model.SmeStateComplete && st != model.SmeStateError &&
					st != model.SmeHelloStatePendingListen {
					// waiting for the peer's user is a stable point as well
					peerPending := false
					if pc, ok := eth.nodes[other[name]].h.VerifRegistry()[skis[name]]; ok {
						pst, _ := pc.ShipHandshakeState()
						peerPending = pst == model.SmeHelloStatePendingListen
					}
					// ... but only while that user has not registered the peer: a request that went to pending-listen just before
					// its user's Register (the registration found no connection to approve yet) is not a point of rest - the
					// dialler's 60 s timer ends it and the pair connects anew, so the scenario is waited for
					if !(st == model.SmeHelloStateReadyListen && peerPending && !registered[other[name]]) {
						busy = true
					}
				}
			}
		}
		// a pair that ought to be connected (both users registered, both in sight, nobody shut down, no wrong SHIP id) and is
		// not: on a starved machine a pause of 1.5 s between two attempts looks like rest. A pair that is really stuck stays
		// stuck, so it is waited for six rounds before the state is taken as one at rest
		eth.mu.Lock()
		want := registered["A"] && registered["B"] && eth.visible["A"] && eth.visible["B"] && !shut["A"] && !shut["B"] &&
			s.IDs["A"] != "wrong" && s.IDs["B"] != "wrong"
		eth.mu.Unlock()
		wanted, unconnected = want, false
		if want {
			for name, n := range eth.nodes {
				c, ok := n.h.VerifRegistry()[skis[other[name]]]
				if !ok {
					unconnected = true
				} else if st, _ := c.ShipHandshakeState(); st != model.SmeStateComplete {
					unconnected = true
				}
			}
			if unconnected && !busy && round < 6 {
				busy = true
			}
		}
		if !busy && quiet {
			settled = true
			break
		}
		if busy {
			time.Sleep(2 * time.Second)
		}
	}
	// settled = false: the pair never came to rest within the budget (a loaded machine, or a library that keeps acting);
	// such an observation is not a quiescent state and the monitor does not judge it as one
	if l.flooded() {
		for name, n := range eth.nodes {
			if !shut[name] {
				n.h.Shutdown()
				shut[name] = true
			}
		}
		time.Sleep(300 * time.Millisecond)
	}
	l.add("", "Quiesced", vh.B(settled))
	// a pair that ought to be connected and still is not after all those rounds (half a minute and more, the dial back-off
	// scaled to 2 % or less) without ever falling silent - one side keeps dialling and is refused - is stuck: C05 judges it
	// (not while a transport is open between the two: a request that waits in pending-listen for a user who registered just
	// before it arrived is ended by the dialler's 60 s timer and the pair connects anew - beyond this budget, see false alarm 24)
	stuck := !settled && wanted && unconnected && !l.flooded() && eth.nodes["A"].px.nopen()+eth.nodes["B"].px.nopen() == 0
	o := obsT{ID: s.ID, Script: s, Settled: settled, Stuck: stuck, Hubs: map[string]hubObs{}, ShutDown: shut, Sent: map[string][]string{},
		UserReg: map[string]bool{"A": registered["A"], "B": registered["B"]}, AutoOn: map[string]bool{"A": autoOn["A"], "B": autoOn["B"]}}
	// echo: whatever each application writes now must arrive at the other one
	// (what both have received so far is noted before either writes: a payload can arrive faster than this loop turns)
	before := map[string]int{}
	for name, n := range eth.nodes {
		n.mu.Lock()
		before[name] = len(n.received)
		n.mu.Unlock()
	}
	for _, n := range eth.nodes {
		n.mu.Lock()
		ws := append([]api.ShipConnectionDataWriterInterface{}, n.writers...)
		n.mu.Unlock()
		// the application writes through every writer it was handed (those of closed connections drop the payload)
		for _, w := range ws {
			n.send(w, 1)
		}
	}
	time.Sleep(300 * time.Millisecond)
	// on a loaded machine a payload can take longer: while both hubs hold a completed connection, what was just written is given
	// up to three more seconds to arrive (a connection that does not carry payloads never delivers it)
	echoArrived := func(name string) bool {
		n, peer := eth.nodes[name], eth.nodes[other[name]]
		n.mu.Lock()
		nw := len(n.writers)
		tail := map[string]bool{}
		for i := len(n.sent) - nw; i >= 0 && i < len(n.sent); i++ {
			tail[n.sent[i]] = true
		}
		n.mu.Unlock()
		peer.mu.Lock()
		defer peer.mu.Unlock()
		for _, r := range peer.received[before[other[name]]:] {
			if tail[r] {
				return true
			}
		}
		return false
	}
	completed := func(name string) bool {
		c, ok := eth.nodes[name].h.VerifRegistry()[skis[other[name]]]
		if !ok {
			return false
		}
		st, _ := c.ShipHandshakeState()
		return st == model.SmeStateComplete
	}
	for k := 0; k < 60 && completed("A") && completed("B") && !(echoArrived("A") && echoArrived("B")); k++ {
		time.Sleep(50 * time.Millisecond)
	}
	// a pairing-state notification is delivered 500 ms after its state was stored, by a goroutine of its own: on a loaded machine
	// it can be later than the silence that was taken for quiescence. A notification that still differs from what the hub answers
	// is given two more seconds (a last notification that is wrong stays wrong)
	for k := 0; k < 40; k++ {
		behind := false
		for name, n := range eth.nodes {
			if shut[name] {
				continue
			}
			n.mu.Lock()
			ln := n.lastNote
			n.mu.Unlock()
			if ln != "" && ln != csNames[n.h.PairingDetailForSki(skis[other[name]]).State()] {
				behind = true
			}
		}
		if !behind {
			break
		}
		time.Sleep(50 * time.Millisecond)
	}
	eth.mu.Lock()
	o.Stable = registered["A"] && registered["B"] && eth.visible["A"] && eth.visible["B"] && !shut["A"] && !shut["B"]
	eth.mu.Unlock()
	for name, n := range eth.nodes {
		ho := hubObs{Received: []string{}}
		reg := n.h.VerifRegistry()
		if c, ok := reg[skis[other[name]]]; ok {
			ho.Registered = true
			st, _ := c.ShipHandshakeState()
			if nm, ok := stNames[st]; ok {
				ho.State = nm
			} else {
				ho.State = "State" + strconv.Itoa(int(st))
			}
		}
		ho.Trusted = n.h.ServiceForSKI(skis[other[name]]).Trusted()
		ho.Detail = csNames[n.h.PairingDetailForSki(skis[other[name]]).State()]
		ho.AttemptCnt, ho.AttemptRun = n.h.VerifAttempt(skis[other[name]])
		n.mu.Lock()
		ho.LastWord, ho.LastNote, ho.Setups, ho.Disconnects, ho.ShipIDs = n.lastWord, n.lastNote, n.setups, n.discs, n.shipIDs
		ho.Received = append(ho.Received, n.received...)
		o.Sent[name] = append([]string{}, n.sent...)
		n.mu.Unlock()
		o.Hubs[name] = ho
	}
	for name, n := range eth.nodes {
		peer := eth.nodes[other[name]]
		n.mu.Lock()
		nw := len(n.writers)
		tail := map[string]bool{}
		for i := len(n.sent) - nw; i >= 0 && i < len(n.sent); i++ {
			tail[n.sent[i]] = true
		}
		n.mu.Unlock()
		peer.mu.Lock()
		got := false
		for _, r := range peer.received[before[other[name]]:] {
			if tail[r] {
				got = true
			}
		}
		peer.mu.Unlock()
		ho := o.Hubs[name]
		ho.EchoOut = got
		o.Hubs[name] = ho
	}
	o.OpenStreams = eth.nodes["A"].px.nopen() + eth.nodes["B"].px.nopen()
	o.Streams = int(eth.nodes["A"].px.total.Load() + eth.nodes["B"].px.total.Load())
	l.mu.Lock()
	o.Events = append([]evT{}, l.ev...)
	if l.flood {
		o.Settled = false
	}
	l.mu.Unlock()
	storedAbs := map[string]string{}
	for _, name := range []string{"A", "B"} {
		switch s.IDs[name] {
		case "right":
			storedAbs[name] = otherName(name)
		case "wrong":
			storedAbs[name] = name
		default:
			storedAbs[name] = "none"
		}
	}
	o.Conns = collectConns(eth.nodes, o.Events, storedAbs)
	// the scenario-level history keeps the hub-level events and, of the connections' events, only the hub's answers about
	// trust and the approvals (the rest is in Conns)
	hubLevel := o.Events[:0:0]
	for _, e := range o.Events {
		if e.C == 0 || (!e.Old && (e.Ev == "c.q" || e.Ev == "c.new" || (e.Ev == "c.enter" && e.V == "approve"))) {
			hubLevel = append(hubLevel, e)
		}
	}
	o.Events = hubLevel
	for name, n := range eth.nodes {
		if !shut[name] {
			n.h.Shutdown()
		}
		_ = n.px.l.Close()
		n.px.cut()
	}
	return o
}

// settle waits until nothing was logged for `quiet`, at most `max`; false = it never got quiet
func settle(l *elog, quiet, max time.Duration) bool {
	deadline := time.Now().Add(max)
	for time.Now().Before(deadline) {
		if l.flooded() {
			return false
		}
		if l.quietFor() >= quiet {
			return true
		}
		time.Sleep(50 * time.Millisecond)
	}
	return false
}

func main() {
	in := flag.String("scripts", "", "ndjson scripts")
	obs := flag.String("obs", "", "ndjson observations")
	par := flag.Int("par", 24, "scenarios in flight")
	scale := flag.Int("scale", 20, "permille of the library's random dial back-off")
	flag.Parse()
	log.SetOutput(io.Discard) // net/http logs every refused TLS handshake
	util.VerifSetDelayScale(*scale)
	installLive()
	var scripts []scriptT
	if err := vh.ReadLines(*in, func(b []byte) error {
		var s scriptT
		if err := json.Unmarshal(b, &s); err != nil {
			return err
		}
		scripts = append(scripts, s)
		return nil
	}); err != nil || len(scripts) == 0 {
		fmt.Fprintln(os.Stderr, "no scripts:", err)
		os.Exit(2)
	}
	out, err := vh.NewWriter(*obs)
	if err != nil {
		fmt.Fprintln(os.Stderr, err)
		os.Exit(2)
	}
	t0 := time.Now()
	vh.Pool(len(scripts), *par, func(i int) { out.Write(runScript(scripts[i])) })
	out.Close()
	if fds, err := os.ReadDir("/proc/self/fd"); err == nil && os.Getenv("VERIF_FDS") != "" {
		fmt.Printf("open file descriptors at the end: %d\n", len(fds))
	}
	fmt.Printf("hub2: %d scenarios on pairs of real hubs, %.1fs\n", len(scripts), time.Since(t0).Seconds())
}
