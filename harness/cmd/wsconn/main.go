// Command wsconn executes environment scripts (spec/WsGen.tla) against real ws.WebsocketConnection objects
// (C12, C13). The connection runs on a real gorilla websocket over loopback TCP; its net.Conn is wrapped so that
// the harness can block, fail or count individual transport reads and writes (no hook inside package ws). Every
// call, frame and callback is appended to one mutex protected log; spec/MonWs.tla judges the log and
// spec/TraceWs.tla validates recorded histories against WsConn.tla.
package main

import (
	"encoding/json"
	"errors"
	"flag"
	"fmt"
	"net"
	"net/http"
	"net/http/httptest"
	"os"
	"regexp"
	"runtime"
	"strconv"
	"strings"
	"sync"
	"sync/atomic"
	"time"

	"github.com/enbility/ship-go/ws"
	"github.com/gorilla/websocket"

	"verifharness/vh"
)

// ---------------------------------------------------------------- script / observation formats

type script struct {
	ID      int    `json:"id"`
	Writers int    `json:"writers"` // writer goroutines
	Msgs    int    `json:"msgs"`    // messages per writer
	Inbound int    `json:"inbound"` // frames the peer sends to the connection
	Event   string `json:"event"`   // none | localClose | localCloseReason | peerClose | peerEof | writeFail | readFail
	Place   string `json:"place"`   // start | idle | mid | blockedFull
	K       int    `json:"k"`       // writeFail / readFail: the k-th transport write / read after set-up fails; localCloseReason: 1 = the
	// transport write of the close frame returns late (after the peer reacted to the frame)
	Delay int `json:"delay"` // mid: microseconds before the event
}

type ev struct {
	Seq int    `json:"seq"`
	Ev  string `json:"ev"`
	W   int    `json:"w"`
	N   int    `json:"n"`
	Res string `json:"res"`
}

type final struct {
	IsClosed       bool `json:"isClosed"`
	ErrNonNil      bool `json:"errNonNil"`
	NetCloseCalls  int  `json:"netCloseCalls"`
	ReadPumpAlive  bool `json:"readPumpAlive"`
	WritePumpAlive bool `json:"writePumpAlive"`
	FaultTriggered bool `json:"faultTriggered"`
	PeerGotClose   int  `json:"peerGotClose"` // close code the peer received, 0 if none
}

type result struct {
	ID      int    `json:"id"`
	Script  script `json:"script"`
	Events  []ev   `json:"events"`
	Final   final  `json:"final"`
	gid     int
	sut     *ws.WebsocketConnection
	cleanup func()
}

type evlog struct {
	mu sync.Mutex
	ev []ev
}

func (l *evlog) add(name string, w, n int, res string) {
	l.mu.Lock()
	l.ev = append(l.ev, ev{Seq: len(l.ev) + 1, Ev: name, W: w, N: n, Res: res})
	l.mu.Unlock()
}

func (l *evlog) has(name string, n int) bool {
	l.mu.Lock()
	defer l.mu.Unlock()
	for _, e := range l.ev {
		if e.Ev == name && e.N == n {
			return true
		}
	}
	return false
}

// ---------------------------------------------------------------- fault injecting net.Conn

type faultConn struct {
	net.Conn
	l             *evlog
	armed         atomic.Bool
	nWrite        atomic.Int32
	nRead         atomic.Int32
	failWriteAt   int32
	failReadAt    int32
	blockAt       int32
	slowClose     bool
	failClose     bool
	release       chan struct{}
	closed        chan struct{}
	closeOnce     sync.Once
	closeCalls    atomic.Int32
	triggered     atomic.Bool
	inRead        atomic.Int32
	writeDeadline atomic.Value  // time.Time: what the connection asked for with SetWriteDeadline
	holdRead      atomic.Bool   // the next transport read that returns data is held back until readRelease is closed
	readHeld      chan struct{} // closed when a read is being held
	readRelease   chan struct{}
}

func (c *faultConn) Write(b []byte) (int, error) {
	if c.armed.Load() {
		k := c.nWrite.Add(1)
		if k == c.blockAt {
			c.l.add("NetWriteBlocked", 0, int(k), "")
			// a peer that stays connected but does not read: the write blocks until the script releases it, the connection is
			// closed, or the write deadline the caller set passes
			var dl <-chan time.Time
			if d := c.writeDeadline.Load(); d != nil && !d.(time.Time).IsZero() {
				dl = time.After(time.Until(d.(time.Time)))
			}
			select {
			case <-c.release:
			case <-c.closed:
				return 0, errors.New("use of closed network connection")
			case <-dl:
				c.l.add("NetWriteTimeout", 0, int(k), "")
				return 0, os.ErrDeadlineExceeded
			}
		}
		if k == c.failWriteAt {
			c.triggered.Store(true)
			c.l.add("NetWrite", 0, int(k), "err")
			return 0, errors.New("injected transport write failure")
		}
	}
	if c.failClose && len(b) > 0 && b[0]&0x0f == websocket.CloseMessage && c.armed.Load() {
		// the close frame of a local close with a reason does not get out: the connection has to be released all the same
		c.l.add("NetWrite", 0, -1, "err")
		return 0, errors.New("injected failure of the close frame's transport write")
	}
	if c.slowClose && len(b) > 0 && b[0]&0x0f == websocket.CloseMessage && c.armed.Load() {
		// a legal schedule made likely: the write call of the close frame returns only after the peer has reacted to the frame
		n, err := c.Conn.Write(b)
		time.Sleep(30 * time.Millisecond)
		return n, err
	}
	return c.Conn.Write(b)
}

func (c *faultConn) SetWriteDeadline(t time.Time) error {
	c.writeDeadline.Store(t)
	return c.Conn.SetWriteDeadline(t)
}

func (c *faultConn) Read(b []byte) (int, error) {
	c.inRead.Add(1)
	defer c.inRead.Add(-1)
	if c.armed.Load() {
		k := c.nRead.Add(1)
		if k == c.failReadAt {
			c.triggered.Store(true)
			c.l.add("NetRead", 0, int(k), "err")
			return 0, errors.New("injected transport read failure")
		}
	}
	n, err := c.Conn.Read(b)
	if n > 0 && c.holdRead.CompareAndSwap(true, false) {
		// the bytes are off the socket; the call returns to the read pump only when the script says so
		c.l.add("NetReadHeld", 0, n, "")
		close(c.readHeld)
		<-c.readRelease
		c.l.add("NetReadReleased", 0, n, "")
	}
	return n, err
}

func (c *faultConn) Close() error {
	c.closeCalls.Add(1)
	c.l.add("NetClose", 0, 0, "")
	c.closeOnce.Do(func() { close(c.closed) })
	return c.Conn.Close()
}

// ---------------------------------------------------------------- the SHIP layer stand-in

type reader struct {
	l     *evlog
	sut   *ws.WebsocketConnection
	react bool
}

func (r *reader) HandleIncomingWebsocketMessage(m []byte) {
	n := 0
	if len(m) > 2 {
		n = int(m[2])
	}
	r.l.add("DeliverIn", 0, n, "")
}
func (r *reader) ReportConnectionError(e error) {
	r.l.add("ReportError", 0, 0, "")
	if r.react && r.sut != nil {
		// what ship.ShipConnection does: CloseConnection -> CloseDataConnection(4001, "")
		r.sut.CloseDataConnection(4001, "")
	}
}

// ---------------------------------------------------------------- one scenario

var reGoroutine = regexp.MustCompile(`^goroutine (\d+) `)

func goid() int {
	buf := make([]byte, 64)
	buf = buf[:runtime.Stack(buf, false)]
	m := reGoroutine.FindSubmatch(buf)
	if m == nil {
		return -1
	}
	n, _ := strconv.Atoi(string(m[1]))
	return n
}

const callDeadline = 3 * time.Second

// close codes a peer may send (the script's k selects one)
var closeCodes = []int{1000, 1001, 1002, 1008, 1011, 3000, 4001, 4452, 4999, 1003}

func runScript(s script) *result {
	l := &evlog{}
	res := &result{ID: s.ID, Script: s, gid: goid()}
	up := websocket.Upgrader{}
	peerCmd := make(chan string, 4)
	var peerDone sync.WaitGroup
	peerDone.Add(1)
	var peerGotClose atomic.Int32
	var peerStalled atomic.Bool
	srv := httptest.NewServer(http.HandlerFunc(func(w http.ResponseWriter, r *http.Request) {
		defer peerDone.Done()
		c, err := up.Upgrade(w, r, nil)
		if err != nil {
			return
		}
		defer c.Close()
		c.SetCloseHandler(func(code int, text string) error {
			peerGotClose.Store(int32(code))
			return nil
		})
		c.SetPingHandler(func(d string) error {
			if peerStalled.Load() {
				return nil // a peer that went silent: no pong
			}
			_ = c.WriteControl(websocket.PongMessage, []byte(d), time.Now().Add(time.Second))
			return nil
		})
		go func() {
			for cmd := range peerCmd {
				switch {
				case cmd == "eof":
					_ = c.UnderlyingConn().Close()
				case strings.HasPrefix(cmd, "close"):
					code, _ := strconv.Atoi(cmd[5:])
					_ = c.WriteControl(websocket.CloseMessage, websocket.FormatCloseMessage(code, "peer close"), time.Now().Add(time.Second))
				case strings.HasPrefix(cmd, "bad"):
					// frames a SHIP peer must never send (C08): the connection may be closed, the process must survive
					switch cmd[3:] {
					case "1":
						_ = c.WriteMessage(websocket.TextMessage, []byte("text frame"))
					case "2":
						_ = c.WriteMessage(websocket.BinaryMessage, []byte{1})
					case "3":
						_ = c.WriteMessage(websocket.BinaryMessage, []byte{})
					case "4":
						_ = c.WriteMessage(websocket.BinaryMessage, append([]byte{1, 0, 77}, make([]byte, 1<<20)...))
					default:
						_ = c.WriteControl(websocket.PingMessage, []byte("ping with payload"), time.Now().Add(time.Second))
					}
				case strings.HasPrefix(cmd, "in"):
					n, _ := strconv.Atoi(cmd[2:])
					_ = c.WriteMessage(websocket.BinaryMessage, []byte{1, 0, byte(n)})
				}
			}
		}()
		for {
			_, b, err := c.ReadMessage()
			if err != nil {
				return
			}
			if len(b) >= 3 {
				l.add("PeerRecv", int(b[1]), int(b[2]), "")
			}
		}
	}))
	var fc *faultConn
	d := websocket.Dialer{NetDial: func(network, addr string) (net.Conn, error) {
		c, err := net.Dial(network, addr)
		if err != nil {
			return nil, err
		}
		fc = &faultConn{Conn: c, l: l, release: make(chan struct{}), closed: make(chan struct{}), readHeld: make(chan struct{}), readRelease: make(chan struct{})}
		return fc, nil
	}}
	conn, resp, err := d.Dial("ws"+strings.TrimPrefix(srv.URL, "http"), nil)
	if err != nil {
		l.add("SetupFailed", 0, 0, err.Error())
		res.Events = l.ev
		res.cleanup = srv.Close
		return res
	}
	resp.Body.Close()
	switch s.Event {
	case "writeFail":
		fc.failWriteAt = int32(s.K)
	case "readFail":
		fc.failReadAt = int32(s.K)
	}
	if s.Place == "blockedFull" || s.Event == "localCloseStalled" || s.Event == "slowWrite" {
		fc.blockAt = 1
	}
	fc.slowClose = s.Event == "localCloseReason" && s.K == 1
	fc.failClose = s.Event == "localCloseReason" && s.K == 2
	fc.armed.Store(true)
	sut := ws.NewWebsocketConnection(conn, "ski")
	res.sut = sut
	rd := &reader{l: l, sut: sut, react: true}
	sut.InitDataProcessing(rd)

	write := func(w, n int) string {
		l.add("WriteStart", w, n, "")
		r := "hang"
		cr := vh.Call(callDeadline, func() {
			if err := sut.WriteMessageToWebsocketConnection([]byte{1, byte(w), byte(n)}); err != nil {
				r = "err"
			} else {
				r = "ok"
			}
		})
		if cr.Panicked {
			r = "panic"
		} else if cr.Hung {
			r = "hang"
		}
		l.add("WriteEnd", w, n, r)
		return r
	}
	event := func() {
		switch s.Event {
		case "localClose":
			l.add("CloseStart", 0, 0, "")
			cr := vh.Call(callDeadline, func() { sut.CloseDataConnection(4001, "") })
			l.add("CloseEnd", 0, 0, map[bool]string{true: "hang", false: "ok"}[cr.Hung])
		case "localCloseReason":
			l.add("CloseStart", 0, 1, "")
			cr := vh.Call(callDeadline, func() { sut.CloseDataConnection(4001, "close") })
			l.add("CloseEnd", 0, 1, map[bool]string{true: "hang", false: "ok"}[cr.Hung])
		case "localCloseStalled":
			// the peer stays connected but reads nothing: message 1 sits in a transport write that nobody releases. A local close
			// (k = 1: with a reason, which has to wait for that write) must still come back - the write deadline ends the write
			go func() { write(1, 60) }()
			time.Sleep(20 * time.Millisecond)
			reason := ""
			if s.K == 1 {
				reason = "close"
			}
			l.add("CloseStart", 0, s.K, "")
			cr := vh.Call(14*time.Second, func() { sut.CloseDataConnection(4001, reason) })
			l.add("CloseEnd", 0, s.K, map[bool]string{true: "hang", false: "ok"}[cr.Hung])
			time.Sleep(50 * time.Millisecond)
		case "peerSilent":
			// no pong, no FIN: only the read deadline (pong wait) notices; the ping goes out after 50 s, the deadline is 60 s
			l.add("PeerSilent", 0, 0, "")
			peerStalled.Store(true)
			for t0 := time.Now(); time.Since(t0) < 80*time.Second && !l.has("ReportError", 0); time.Sleep(200 * time.Millisecond) {
			}
		case "idleLong":
			// control: the peer answers the pings, an idle connection outlives the pong wait
			l.add("IdleLong", 0, 0, "")
			time.Sleep(70 * time.Second)
			if write(1, 50) == "ok" {
				time.Sleep(50 * time.Millisecond)
			}
		case "localCloseLateRead":
			// the peer's frame 7 is read off the socket, the read call is held; local close; then the read returns
			fc.holdRead.Store(true)
			peerCmd <- "in7"
			select {
			case <-fc.readHeld:
			case <-time.After(2 * time.Second):
				l.add("SetupFailed", 0, 0, "the frame never arrived")
			}
			reason := ""
			if s.K == 1 {
				reason = "close"
			}
			l.add("CloseStart", 0, s.K, "")
			cr := vh.Call(callDeadline, func() { sut.CloseDataConnection(4001, reason) })
			l.add("CloseEnd", 0, s.K, map[bool]string{true: "hang", false: "ok"}[cr.Hung])
			close(fc.readRelease)
			time.Sleep(30 * time.Millisecond)
		case "peerClose":
			code := closeCodes[(s.K+len(closeCodes)-1)%len(closeCodes)]
			l.add("PeerClose", 0, code, "")
			peerCmd <- "close" + strconv.Itoa(code)
		case "peerBad":
			l.add("PeerBad", 0, s.K, "")
			peerCmd <- "bad" + strconv.Itoa(s.K)
			// C08: the receive loop must not be blocked by the odd frame - a regular frame (n = 9) follows
			peerCmd <- "in9"
		case "peerEof":
			l.add("PeerEof", 0, 0, "")
			peerCmd <- "eof"
		}
	}
	for i := 1; i <= s.Inbound; i++ {
		peerCmd <- "in" + strconv.Itoa(i)
	}
	var wg sync.WaitGroup
	startWriters := func(from int) {
		for w := 1; w <= s.Writers; w++ {
			wg.Add(1)
			go func(w int) {
				defer wg.Done()
				for k := s.Msgs; k >= from; k-- { // numbers count down like wleft in WsConn.tla
					if write(w, k) != "ok" {
						return
					}
				}
			}(w)
		}
	}
	if s.Event == "slowWrite" {
		// the first transport write takes 2.4 s (the peer reads slowly); the writers go on writing: whoever finds the queue full
		// waits; nothing closes the connection, so everything arrives
		t0 := time.Now()
		go func() { time.Sleep(2400 * time.Millisecond); close(fc.release) }()
		startWriters(1)
		wg.Wait()
		if d := 2500*time.Millisecond - time.Since(t0); d > 0 {
			time.Sleep(d) // the observation is taken once the transport has been released and the queue drained
		}
		time.Sleep(60 * time.Millisecond)
	}
	switch s.Place {
	case "start":
		event()
		time.Sleep(2 * time.Millisecond)
		startWriters(1)
		wg.Wait()
	case "mid":
		startWriters(1)
		time.Sleep(time.Duration(s.Delay) * time.Microsecond)
		event()
		wg.Wait()
	case "idle":
		if s.Event != "slowWrite" {
			startWriters(1)
			wg.Wait()
		}
		time.Sleep(20 * time.Millisecond) // everything accepted is on the wire
		event()
		time.Sleep(20 * time.Millisecond)
	case "blockedFull":
		// the pump holds message 1 in a blocked transport write, message 2 fills the channel, every further writer
		// blocks in the channel send; then the event; then the transport is released
		wg.Add(1)
		go func() { defer wg.Done(); write(1, 2); write(1, 1) }()
		time.Sleep(15 * time.Millisecond)
		for w := 2; w <= s.Writers; w++ {
			wg.Add(1)
			go func(w int) { defer wg.Done(); write(w, 1) }(w)
		}
		time.Sleep(15 * time.Millisecond)
		go func() { time.Sleep(60 * time.Millisecond); close(fc.release) }()
		event()
		wg.Wait()
	}
	if s.Event == "writeFail" || s.Event == "readFail" || s.Event == "none" {
		time.Sleep(10 * time.Millisecond)
	}
	if s.Event == "peerBad" {
		// the regular frame that follows the odd one is delivered or the connection is closed - wait for either (a 1 MB frame
		// takes its time on a loaded machine); only a receive loop that stays blocked runs into the deadline
		for t0 := time.Now(); time.Since(t0) < 3*time.Second; time.Sleep(2 * time.Millisecond) {
			if c, _ := sut.IsDataConnectionClosed(); c || l.has("DeliverIn", 9) {
				break
			}
		}
	}
	// settle, then one late write per writer: it must return, with an error if the connection is closed
	time.Sleep(40 * time.Millisecond)
	closedNow, _ := sut.IsDataConnectionClosed()
	l.add("Settled", 0, 0, vh.B(closedNow))
	for w := 1; w <= s.Writers; w++ {
		write(w, 100+w)
	}
	time.Sleep(60 * time.Millisecond)
	isClosed, cerr := sut.IsDataConnectionClosed()
	res.Final = final{IsClosed: isClosed, ErrNonNil: cerr != nil, NetCloseCalls: int(fc.closeCalls.Load()),
		FaultTriggered: fc.triggered.Load(), ReadPumpAlive: fc.inRead.Load() > 0, PeerGotClose: int(peerGotClose.Load())}
	l.mu.Lock()
	res.Events = append([]ev{}, l.ev...)
	l.mu.Unlock()
	// release everything the scenario still holds - after the batch's goroutine dump (not part of the observation)
	res.cleanup = func() {
		close(peerCmd)
		if !isClosed {
			// (bounded: a connection whose close path is wedged must not wedge the harness - the verdict is already taken)
			vh.Call(2*time.Second, func() { sut.CloseDataConnection(4001, "") })
		}
		_ = fc.Conn.Close()
		vh.Call(3*time.Second, func() { peerDone.Wait() })
		vh.Call(3*time.Second, func() { srv.Close() })
	}
	return res
}

// pumpsAlive parses a dump of all goroutines: pump goroutines are created by (*WebsocketConnection).run, which the
// scenario goroutine called, so "created by ... in goroutine N" attributes a leaked pump to its scenario
func pumpsAlive() (readers, writers map[int]bool) {
	buf := make([]byte, 64<<20)
	buf = buf[:runtime.Stack(buf, true)]
	readers, writers = map[int]bool{}, map[int]bool{}
	reCreated := regexp.MustCompile(`created by github.com/enbility/ship-go/ws\.\(\*WebsocketConnection\)\.run in goroutine (\d+)`)
	for _, g := range strings.Split(string(buf), "\n\n") {
		m := reCreated.FindStringSubmatch(g)
		if m == nil {
			continue
		}
		n, _ := strconv.Atoi(m[1])
		if strings.Contains(g, "readShipPump") {
			readers[n] = true
		}
		if strings.Contains(g, "writeShipPump") {
			writers[n] = true
		}
	}
	return
}

func main() {
	in := flag.String("scripts", "", "ndjson scripts")
	obs := flag.String("obs", "", "ndjson observations")
	sum := flag.String("summary", "", "summary json")
	par := flag.Int("par", 48, "scenarios in flight")
	flag.Parse()
	var scripts []script
	if err := vh.ReadLines(*in, func(b []byte) error {
		var s script
		if err := json.Unmarshal(b, &s); err != nil {
			return err
		}
		scripts = append(scripts, s)
		return nil
	}); err != nil || len(scripts) == 0 {
		fmt.Fprintln(os.Stderr, "no scripts:", err)
		os.Exit(2)
	}
	out, err := vh.NewWriter(*obs)
	if err != nil {
		fmt.Fprintln(os.Stderr, err)
		os.Exit(2)
	}
	t0 := time.Now()
	batch := 400
	total := 0
	for lo := 0; lo < len(scripts); lo += batch {
		hi := lo + batch
		if hi > len(scripts) {
			hi = len(scripts)
		}
		results := make([]*result, hi-lo)
		// every scenario runs on its own goroutine that stays alive until the batch's goroutine dump was taken
		var wg sync.WaitGroup
		done := make(chan struct{})
		sem := make(chan struct{}, *par)
		var finished sync.WaitGroup
		for i := lo; i < hi; i++ {
			wg.Add(1)
			finished.Add(1)
			go func(i int) {
				defer wg.Done()
				sem <- struct{}{}
				results[i-lo] = runScript(scripts[i])
				<-sem
				finished.Done()
				<-done
			}(i)
		}
		finished.Wait()
		time.Sleep(150 * time.Millisecond)
		rd, wr := pumpsAlive()
		close(done)
		wg.Wait()
		for _, r := range results {
			r.cleanup()
			r.Final.ReadPumpAlive = r.Final.ReadPumpAlive || rd[r.gid]
			r.Final.WritePumpAlive = wr[r.gid]
			out.Write(r)
			total++
		}
	}
	out.Close()
	b, _ := json.MarshalIndent(map[string]interface{}{"scripts": total, "wall_s": time.Since(t0).Seconds()}, "", " ")
	_ = os.WriteFile(*sum, b, 0o644)
	fmt.Printf("wsconn: %d scenarios, %.1fs\n", total, time.Since(t0).Seconds())
}
