// Command hubapi replays TLC-generated behaviours of spec/HubApi.tla into a real hub.Hub with injected connection
// objects, a recording mDNS stand-in, a recording hub reader and one refusing TCP listener per remote SKI (so that
// dial attempts are observable). Every behaviour is executed twice: with canonical SKI spellings and with re-spelled
// SKIs (C15). After every step the real hub is projected and compared with the specification (conformance); the
// observations of both runs are written for the TLC monitor pass (spec/MonHub.tla: C10 C11 C15 C18).
package main

import (
	"crypto/tls"
	"encoding/json"
	"errors"
	"flag"
	"fmt"
	"net"
	"os"
	"runtime"
	"sort"
	"strings"
	"sync"
	"sync/atomic"
	"time"

	"github.com/enbility/ship-go/api"
	"github.com/enbility/ship-go/cert"
	"github.com/enbility/ship-go/hub"
	"github.com/enbility/ship-go/model"
	"github.com/enbility/ship-go/util"

	"verifharness/vh"
)

var csNames = []string{"None", "Queued", "Initiated", "ReceivedPairingRequest", "InProgress", "Trusted", "Pin", "Completed", "RemoteDeniedTrust", "Error"}
var shipNum = map[string]model.ShipMessageExchangeState{"InitStart": 0, "ServerWait": 4, "ReadyListen": 8, "PendingListen": 11, "HelloOk": 13,
	"PinCheckListen": 27, "Complete": 38, "Error": 39, "AbortDone": 15, "RemoteAbortDone": 16}

var skiOf = map[string]string{"r1": "0123456789abcdef0123456789abcdef01234567", "r2": "89abcdef0123456789abcdef0123456789abcdef"}
var nameOf = map[string]string{}

func init() {
	for k, v := range skiOf {
		nameOf[v] = k
	}
}

func spell(ski, sp string, pick int) string {
	if sp == "canon" {
		return ski
	}
	switch pick % 4 {
	case 0:
		return strings.ToUpper(ski)
	case 1:
		var b strings.Builder
		for i := 0; i < len(ski); i += 2 {
			if i > 0 {
				b.WriteByte(' ')
			}
			b.WriteString(ski[i : i+2])
		}
		return b.String()
	case 2:
		var b strings.Builder
		for i := 0; i < len(ski); i += 4 {
			if i > 0 {
				b.WriteByte('-')
			}
			b.WriteString(ski[i : i+4])
		}
		return b.String()
	default:
		var b strings.Builder
		for i := 0; i < len(ski); i++ {
			c := ski[i : i+1]
			if i%3 == 0 {
				c = strings.ToUpper(c)
			}
			b.WriteString(c)
			if i%8 == 7 && i+1 < len(ski) {
				b.WriteString(" -")
			}
		}
		return b.String()
	}
}

// ---------------------------------------------------------------- fakes

type recorder struct {
	mu   sync.Mutex
	out  []string
	late []lateNote
}

type lateNote struct {
	Ski   string `json:"ski"`
	State string `json:"state"`
	Ptr   string `json:"ptr"`
}

func (r *recorder) add(s string) {
	// a callback about an SKI that is none of the scenario's: a connection that strayed in from another process on this
	// machine (the hub listens on a port the kernel chose; a dialler elsewhere may still hold that number) - not part of the run
	if strings.Contains(s, ":?") {
		return
	}
	r.mu.Lock()
	r.out = append(r.out, s)
	r.mu.Unlock()
}
func (r *recorder) take() []string {
	r.mu.Lock()
	defer r.mu.Unlock()
	o := r.out
	r.out = nil
	sort.Strings(o)
	if o == nil {
		o = []string{}
	}
	return o
}

type fmdns struct{ r *recorder }

func (m *fmdns) Start(api.MdnsReportInterface) error { m.r.add("mdns.Start"); return nil }
func (m *fmdns) Shutdown()                           { m.r.add("mdns.Shutdown") }
func (m *fmdns) AnnounceMdnsEntry() error            { m.r.add("mdns.Announce"); return nil }
func (m *fmdns) UnannounceMdnsEntry()                { m.r.add("mdns.Unannounce") }
func (m *fmdns) SetAutoAccept(bool)                  { m.r.add("mdns.SetAutoAccept") }
func (m *fmdns) QRCodeText() string                  { return "" }
func (m *fmdns) RequestMdnsEntries()                 { m.r.add("mdns.Request") }

type freader struct {
	r      *recorder
	onDisc func() // run once inside the next disconnect notification (another goroutine acting while the application is in it)
}

func name(ski string) string {
	if n, ok := nameOf[util.NormalizeSKI(ski)]; ok {
		return n
	}
	return "?" + ski
}
func (f *freader) RemoteSKIConnected(ski string) { f.r.add("Connected:" + name(ski)) }
func (f *freader) RemoteSKIDisconnected(ski string) {
	f.r.add("Disconnected:" + name(ski))
	if g := f.onDisc; g != nil {
		f.onDisc = nil
		g()
	}
}
func (f *freader) SetupRemoteDevice(ski string, _ api.ShipConnectionDataWriterInterface) api.ShipConnectionDataReaderInterface {
	f.r.add("Setup:" + name(ski))
	return nil
}
func (f *freader) VisibleRemoteServicesUpdated(e []api.RemoteService) {
	f.r.add(fmt.Sprintf("Visible:%d", len(e)))
}
func (f *freader) ServiceShipIDUpdate(ski string, _ string) { f.r.add("ShipID:" + name(ski)) }
func (f *freader) ServicePairingDetailUpdate(ski string, d *api.ConnectionStateDetail) {
	if strings.HasPrefix(name(ski), "?") {
		return // a stray connection from another process, see recorder.add
	}
	// notifications raised from the delayed goroutine of HandleShipHandshakeStateUpdate are "late" notes
	buf := make([]byte, 8192)
	st := string(buf[:runtime.Stack(buf, false)])
	if strings.Contains(st, "HandleShipHandshakeStateUpdate") {
		f.r.mu.Lock()
		f.r.late = append(f.r.late, lateNote{Ski: name(ski), State: csNames[d.State()], Ptr: fmt.Sprintf("%p", d)})
		f.r.mu.Unlock()
		return
	}
	f.r.add("note:" + name(ski) + ":" + csNames[d.State()])
}
func (f *freader) AllowWaitingForTrust(string) bool { return true }

type fakeDH struct {
	api.WebsocketDataWriterInterface
	id int
}
type fakeConn struct {
	mu  sync.Mutex
	r   *recorder
	idx int
	ski string
	dh  *fakeDH
	st  model.ShipMessageExchangeState
	err error
}

func (c *fakeConn) DataHandler() api.WebsocketDataWriterInterface { return c.dh }
func (c *fakeConn) CloseConnection(safe bool, code int, reason string) {
	s := "unsafe"
	if safe {
		s = "safe"
	}
	c.r.add(fmt.Sprintf("conn%d.Close:%s:%d", c.idx, s, code))
}
func (c *fakeConn) RemoteSKI() string        { return c.ski }
func (c *fakeConn) ApprovePendingHandshake() { c.r.add(fmt.Sprintf("conn%d.Approve", c.idx)) }
func (c *fakeConn) AbortPendingHandshake()   { c.r.add(fmt.Sprintf("conn%d.Abort", c.idx)) }
func (c *fakeConn) ShipHandshakeState() (model.ShipMessageExchangeState, error) {
	c.mu.Lock()
	defer c.mu.Unlock()
	return c.st, c.err
}

// refusing listener: accepts TCP connections and closes them at once; counts them
type listener struct {
	l       net.Listener
	accepts atomic.Int32
}

func newListener() *listener {
	l, err := vh.Listen("127.0.0.1:0")
	if err != nil {
		panic(err)
	}
	ls := &listener{l: l}
	go func() {
		for {
			c, err := l.Accept()
			if err != nil {
				return
			}
			ls.accepts.Add(1)
			_ = c.Close()
		}
	}()
	return ls
}
func (l *listener) port() int { return l.l.Addr().(*net.TCPAddr).Port }

// ---------------------------------------------------------------- behaviours

type svcX struct {
	Trusted bool   `json:"trusted"`
	Paired  bool   `json:"paired"` // what the hub answers a connection that asks whether the service is paired
	Dstate  string `json:"dstate"`
	Derr    bool   `json:"derr"`
	Reg     int    `json:"reg"`
	Cnt     int    `json:"cnt"`
}
type projX struct {
	Started bool            `json:"started"`
	Shut    bool            `json:"shut"`
	Auto    bool            `json:"auto"`
	Svc     map[string]svcX `json:"svc"`
	Out     []string        `json:"out"`
}
type actT struct {
	A   string   `json:"a"`
	K   string   `json:"k,omitempty"`
	Sp  string   `json:"sp,omitempty"`
	S   string   `json:"s,omitempty"`
	I   int      `json:"i,omitempty"`
	E   bool     `json:"e,omitempty"`
	C   bool     `json:"c,omitempty"`
	B   bool     `json:"b,omitempty"`
	Vis []string `json:"vis,omitempty"`
	Ra  bool     `json:"ra,omitempty"` // ReportMdns: the visible services announce register=true (their own auto accept)
}
type stepT struct {
	A actT  `json:"a"`
	X projX `json:"x"`
}
type behT struct {
	ID    int     `json:"id"`
	Steps []stepT `json:"steps"`
}

type obsStep struct {
	A   actT            `json:"a"`
	Svc map[string]svcX `json:"svc"`
	Out []string        `json:"out"`
}
type runObs struct {
	Steps  []obsStep         `json:"steps"`
	Late   []lateNote        `json:"late"`   // delayed pairing-detail notes in delivery order
	Stored []lateNote        `json:"stored"` // details stored by HandleShipHandshakeStateUpdate, in store order (ptr identifies)
	Final  map[string]string `json:"final"`  // PairingDetailForSki at the end
}
type obsT struct {
	ID      int    `json:"id"`
	Canon   runObs `json:"canon"`
	Spelled runObs `json:"spelled"`
}

var theCert tls.Certificate
var sharedErr = errors.New("handshake error")

func runOnce(b *behT, respell bool, seed int) (runObs, string) {
	rec := &recorder{}
	rd := &freader{r: rec}
	h := hub.NewHub(rd, &fmdns{rec}, 0, theCert, api.NewServiceDetails("ffff456789abcdef0123456789abcdef0123ffff"))
	lst := map[string]*listener{}
	for k := range skiOf {
		lst[k] = newListener()
	}
	defer func() {
		for _, l := range lst {
			_ = l.l.Close()
		}
	}()
	var conns []*fakeConn
	var ro runObs
	div := ""
	shut := false
	auto := false
	started := false
	defer func() {
		// a hub the behaviour started and never shut down keeps its listening socket: thousands of behaviours run in one process
		if started && !shut {
			h.Shutdown()
		}
	}()
	for i, st := range b.Steps {
		a := st.A
		sp := "canon"
		if respell {
			sp = a.Sp
		}
		pick := seed + b.ID*3 + i
		ret := ""
		before := map[string]int32{}
		for k, l := range lst {
			before[k] = l.accepts.Load()
		}
		switch a.A {
		case "Start":
			h.Start()
			started = true
		case "Shutdown":
			h.Shutdown()
			shut = true
		case "SetAuto":
			h.SetAutoAccept(a.B)
			auto = a.B
		case "Register":
			h.RegisterRemoteSKI(spell(skiOf[a.K], sp, pick))
		case "Unregister":
			h.UnregisterRemoteSKI(spell(skiOf[a.K], sp, pick))
		case "Disconnect":
			h.DisconnectSKI(spell(skiOf[a.K], sp, pick), "reason")
		case "Cancel":
			h.CancelPairingWithSKI(spell(skiOf[a.K], sp, pick))
		case "Detail":
			d := h.PairingDetailForSki(spell(skiOf[a.K], sp, pick))
			ret = "ret:" + csNames[d.State()]
			if d.Error() != nil {
				ret += "!"
			}
			ret += ":" + vh.B(h.ServiceForSKI(spell(skiOf[a.K], sp, pick+1)).Trusted())
		case "NewConn":
			fc := &fakeConn{r: rec, idx: len(conns) + 1, ski: skiOf[a.K], dh: &fakeDH{id: len(conns)}, st: shipNum[a.S]}
			conns = append(conns, fc)
			h.VerifRegisterConnection(fc)
		case "StateUpdate":
			fc := conns[a.I-1]
			var e error
			if a.E {
				e = sharedErr
			}
			fc.mu.Lock()
			fc.st, fc.err = shipNum[a.S], e
			fc.mu.Unlock()
			prev := h.ServiceForSKI(fc.ski).ConnectionStateDetail()
			h.HandleShipHandshakeStateUpdate(fc.ski, model.ShipState{State: fc.st, Error: e})
			if cur := h.ServiceForSKI(fc.ski).ConnectionStateDetail(); cur != prev {
				ro.Stored = append(ro.Stored, lateNote{Ski: name(fc.ski), State: csNames[cur.State()], Ptr: fmt.Sprintf("%p", cur)})
			}
		case "ShipId":
			h.ReportServiceShipID(conns[a.I-1].ski, "shipid")
		case "Setup":
			h.SetupRemoteDevice(conns[a.I-1].ski, nil)
		case "Closed":
			h.HandleConnectionClosed(conns[a.I-1], a.C)
		case "ClosedRe":
			// while the application is being told that the service is disconnected, a new connection for it gets registered
			old := conns[a.I-1]
			rd.onDisc = func() {
				fc := &fakeConn{r: rec, idx: len(conns) + 1, ski: old.ski, dh: &fakeDH{id: len(conns)}, st: shipNum["ServerWait"]}
				conns = append(conns, fc)
				h.VerifRegisterConnection(fc)
			}
			h.HandleConnectionClosed(old, a.C)
			rd.onDisc = nil
		case "ReportMdns":
			entries := map[string]*api.MdnsEntry{}
			for _, k := range a.Vis {
				entries[skiOf[k]] = &api.MdnsEntry{Name: k, Ski: skiOf[k], Identifier: k, Path: "/ship/", Register: a.Ra,
					Host: "", Port: lst[k].port(), Addresses: []net.IP{net.ParseIP("127.0.0.1")}}
			}
			h.ReportMdnsEntries(entries, true)
			// the dial goroutines (back-off scaled to zero) run now: wait for the expected attempts, and a window for unexpected ones
			want := map[string]bool{}
			for _, o := range st.X.Out {
				if strings.HasPrefix(o, "dial:") {
					want[o[5:]] = true
				}
			}
			deadline := time.Now().Add(400 * time.Millisecond)
			for time.Now().Before(deadline) {
				ok := true
				for k := range want {
					if lst[k].accepts.Load()-before[k] < 2 {
						ok = false
					}
				}
				if ok {
					break
				}
				time.Sleep(time.Millisecond)
			}
			time.Sleep(25 * time.Millisecond)
			for k := range skiOf {
				for t := 0; t < 200; t++ {
					if _, running := h.VerifAttempt(skiOf[k]); !running {
						break
					}
					time.Sleep(time.Millisecond)
				}
			}
			time.Sleep(5 * time.Millisecond)
		default:
			panic("unknown action " + a.A)
		}
		out := rec.take()
		if ret != "" {
			out = append(out, ret)
		}
		for k, l := range lst {
			if l.accepts.Load() > before[k] {
				out = append(out, "dial:"+k)
			}
		}
		sort.Strings(out)
		// projection of the real hub
		reg := h.VerifRegistry()
		svc := map[string]svcX{}
		for k, ski := range skiOf {
			s := h.ServiceForSKI(ski)
			d := s.ConnectionStateDetail()
			x := svcX{Trusted: s.Trusted(), Paired: h.IsRemoteServiceForSKIPaired(skiOf[k]), Dstate: csNames[d.State()], Derr: d.Error() != nil, Cnt: -1}
			if c, ok := reg[ski]; ok {
				for j, fc := range conns {
					if api.ShipConnectionInterface(fc) == c {
						x.Reg = j + 1
					}
				}
			}
			x.Cnt, _ = h.VerifAttempt(ski)
			svc[k] = x
		}
		ro.Steps = append(ro.Steps, obsStep{A: a, Svc: svc, Out: out})
		if div == "" { // both runs must conform: the specification does not look at the spelling
			exp := append([]string{}, st.X.Out...)
			var lateExp []string
			var syncExp []string
			for _, o := range exp {
				if strings.HasPrefix(o, "latenote:") {
					lateExp = append(lateExp, o)
				} else {
					syncExp = append(syncExp, o)
				}
			}
			sort.Strings(syncExp)
			if fmt.Sprint(syncExp) != fmt.Sprint(out) && !(len(syncExp) == 0 && len(out) == 0) {
				div = fmt.Sprintf("step %d %s: out real=%v spec=%v", i, a.A, out, syncExp)
			}
			for k, x := range svc {
				e := st.X.Svc[k]
				if x != e {
					div = fmt.Sprintf("step %d %s: %s real=%+v spec=%+v", i, a.A, k, x, e)
				}
			}
			_ = shut
			_ = auto
		}
	}
	// delayed notifications: all of them sleep 500 ms
	time.Sleep(750 * time.Millisecond)
	// on a loaded machine a notification goroutine can be later than that: while the last delayed note of a service whose
	// details were stored is not its current state (or there is none yet), up to three more seconds are given - a notification
	// that is wrong or missing stays wrong or missing
	for k := 0; k < 60; k++ {
		behind := false
		rec.mu.Lock()
		last := map[string]string{}
		for _, ln := range rec.late {
			last[ln.Ski] = ln.State
		}
		rec.mu.Unlock()
		for _, sd := range ro.Stored {
			if ski, ok := skiOf[sd.Ski]; ok && last[sd.Ski] != csNames[h.PairingDetailForSki(ski).State()] {
				behind = true
			}
		}
		if !behind {
			break
		}
		time.Sleep(50 * time.Millisecond)
	}
	rec.mu.Lock()
	ro.Late = append([]lateNote{}, rec.late...)
	rec.mu.Unlock()
	if ro.Late == nil {
		ro.Late = []lateNote{}
	}
	if ro.Stored == nil {
		ro.Stored = []lateNote{}
	}
	ro.Final = map[string]string{}
	for k, ski := range skiOf {
		ro.Final[k] = csNames[h.PairingDetailForSki(ski).State()]
	}
	return ro, div
}

func main() {
	in := flag.String("tests", "", "ndjson behaviours")
	obs := flag.String("obs", "", "ndjson observations")
	sum := flag.String("summary", "", "summary json")
	par := flag.Int("par", 256, "behaviours in flight")
	flag.Parse()
	seed := vh.EnvInt("VERIF_SEED", 1)
	var err error
	theCert, err = cert.CreateCertificate("ou", "o", "DE", "local")
	if err != nil {
		fmt.Fprintln(os.Stderr, err)
		os.Exit(2)
	}
	util.VerifSetDelayScale(0)
	var behs []*behT
	if err := vh.ReadLines(*in, func(b []byte) error {
		x := &behT{}
		if err := json.Unmarshal(b, x); err != nil {
			return err
		}
		behs = append(behs, x)
		return nil
	}); err != nil || len(behs) == 0 {
		fmt.Fprintln(os.Stderr, "no behaviours:", err)
		os.Exit(2)
	}
	out, err := vh.NewWriter(*obs)
	if err != nil {
		fmt.Fprintln(os.Stderr, err)
		os.Exit(2)
	}
	var mu sync.Mutex
	divs := []string{}
	steps := 0
	t0 := time.Now()
	vh.Pool(len(behs), *par, func(i int) {
		c, d := runOnce(behs[i], false, seed)
		s, d2 := runOnce(behs[i], true, seed)
		if d == "" && d2 != "" {
			d = "re-spelled run: " + d2
		}
		out.Write(obsT{ID: behs[i].ID, Canon: c, Spelled: s})
		mu.Lock()
		steps += len(c.Steps) + len(s.Steps)
		if d != "" {
			divs = append(divs, fmt.Sprintf("behaviour %d: %s", behs[i].ID, d))
		}
		mu.Unlock()
	})
	out.Close()
	sort.Strings(divs)
	samples := divs
	if len(samples) > 50 {
		samples = samples[:50]
	}
	b, _ := json.MarshalIndent(map[string]interface{}{"tests": len(behs), "steps": steps, "divergences": len(divs), "divergence_samples": samples,
		"wall_s": time.Since(t0).Seconds()}, "", " ")
	_ = os.WriteFile(*sum, b, 0o644)
	fmt.Printf("hubapi: %d behaviours (each run twice), %d observed steps, %d diverge from the specification, %.1fs\n", len(behs), steps, len(divs), time.Since(t0).Seconds())
}
