// Command sme replays TLC-generated behaviours of spec/ShipSme.tla into real ship.ShipConnection
// objects (mechanism A of DESIGN.md): one endpoint against an adversary, or a client and a server
// endpoint joined by harness-owned FIFO queues. After every environment action the real object is
// projected and compared with the specification's expectation (conformance), and everything the real
// code did is written as an observation trace that the TLC monitor pass (spec/MonSme.tla) judges.
//
//	sme -tests tests.ndjson -obs obs.ndjson -summary summary.json
package main

import (
	"encoding/json"
	"errors"
	"flag"
	"fmt"
	"os"
	"regexp"
	"runtime"
	"runtime/pprof"
	"sort"
	"strconv"
	"strings"
	"sync"
	"sync/atomic"
	"time"

	"github.com/enbility/ship-go/api"
	"github.com/enbility/ship-go/model"
	"github.com/enbility/ship-go/ship"

	"verifharness/vh"
)

var stNames = vh.StNames

func stName(s model.ShipMessageExchangeState) string { return vh.StName(s) }

var timerNames = []string{"WFR", "SPR", "PRR"}

// ---------------------------------------------------------------- fakes

// info is the ShipConnectionInfoProviderInterface of one endpoint (the hub's role)
type info struct {
	mu                 sync.Mutex
	log                *vh.Log
	paired, auto, wait bool
	slowClosed         bool
	rd                 *reader
}

func (f *info) IsRemoteServiceForSKIPaired(string) bool {
	f.mu.Lock()
	defer f.mu.Unlock()
	return f.paired
}
func (f *info) IsAutoAcceptEnabled() bool        { f.mu.Lock(); defer f.mu.Unlock(); return f.auto }
func (f *info) AllowWaitingForTrust(string) bool { f.mu.Lock(); defer f.mu.Unlock(); return f.wait }
func (f *info) HandleConnectionClosed(_ api.ShipConnectionInterface, completed bool) {
	f.log.Add("closed", vh.B(completed))
	f.mu.Lock()
	slow := f.slowClosed
	f.mu.Unlock()
	if slow {
		// the hub (and the application behind it) takes its time over the end of a connection: during a step with two calls at
		// the same time the second cause of the end arrives while this notification is still running
		time.Sleep(3 * time.Millisecond)
	}
}
func (f *info) ReportServiceShipID(_ string, id string) { f.log.Add("id", absID(id)) }
func (f *info) HandleShipHandshakeStateUpdate(_ string, s model.ShipState) {
	f.log.Add("rep", stName(s.State))
}
func (f *info) SetupRemoteDevice(string, api.ShipConnectionDataWriterInterface) api.ShipConnectionDataReaderInterface {
	f.log.Add("setup", "1")
	return f.rd
}

type reader struct{ log *vh.Log }

var reN = regexp.MustCompile(`"n":"([^"]*)"`)

func (r *reader) HandleShipPayloadMessage(m []byte) {
	id := "?"
	if x := reN.FindSubmatch(m); x != nil {
		id = string(x[1])
	}
	r.log.Add("deliver", id)
}

// writer is the WebsocketDataWriterInterface of one endpoint. Like ws.WebsocketConnection it reports
// closed and fails writes after CloseDataConnection. Successful writes go to the peer's queue (pair).
type writer struct {
	mu     sync.Mutex
	log    *vh.Log
	closed bool
	failAt int
	out    func([]byte) // pair: append to the peer's queue
}

func (w *writer) InitDataProcessing(api.WebsocketDataReaderInterface) {}
func (w *writer) WriteMessageToWebsocketConnection(m []byte) error {
	w.mu.Lock()
	defer w.mu.Unlock()
	if w.closed {
		return errors.New("connection is closed")
	}
	if w.failAt > 0 {
		w.failAt--
		if w.failAt == 0 {
			return errors.New("injected write failure")
		}
	}
	k, v, _ := classify(m)
	w.log.Add(k, v)
	if w.out != nil {
		w.out(append([]byte{}, m...))
	}
	return nil
}
func (w *writer) CloseDataConnection(code int, _ string) {
	w.mu.Lock()
	w.closed = true
	w.mu.Unlock()
	w.log.Add("close", strconv.Itoa(code))
}
func (w *writer) IsDataConnectionClosed() (bool, error) {
	w.mu.Lock()
	defer w.mu.Unlock()
	if w.closed {
		return true, errors.New("connection is closed")
	}
	return false, nil
}
func (w *writer) isClosed() bool { w.mu.Lock(); defer w.mu.Unlock(); return w.closed }

// ---------------------------------------------------------------- abstraction of frames

var ids = vh.IDs

func absID(s string) string { return vh.AbsID(s) }

func classify(b []byte) (kind, m, id string) { return vh.Classify(b) }

func ctl(s string) []byte { return append([]byte{model.MsgTypeControl}, []byte(s)...) }

// concrete returns the byte strings of an abstract message class; the variant is picked by pick
func concrete(m string, dataID string, pick int) []byte {
	p := strings.Split(m, ".")
	choose := func(xs ...[]byte) []byte { return xs[pick%len(xs)] }
	switch p[0] {
	case "init":
		switch p[1] {
		case "ok":
			return choose([]byte{0, 0}, []byte{0, 0, 0})
		case "badtype":
			return choose([]byte{1, 0}, []byte{2, 0}, []byte{255, 0})
		default:
			return choose([]byte{0, 1}, []byte{0, 255})
		}
	case "hello":
		phase := map[string]string{"ready": "ready", "pending": "pending", "aborted": "aborted", "bad": "foo"}[p[1]]
		var w int
		switch p[2] {
		case "lt1":
			w = []int{500, 1, 999, 2}[pick%4]
		case "mid":
			w = []int{5000, 1000, 29999}[pick%3]
		case "ge30":
			w = []int{60000, 90000, 4000000, 4294967295}[pick%4]
		}
		if pick%2 == 0 { // EEBUS spelling
			parts := []string{fmt.Sprintf(`{"phase":"%s"}`, phase)}
			if p[2] != "absent" {
				parts = append(parts, fmt.Sprintf(`{"waiting":%d}`, w))
			}
			if p[3] != "absent" {
				parts = append(parts, fmt.Sprintf(`{"prolongationRequest":%s}`, p[3]))
			}
			s := `{"connectionHello":[` + strings.Join(parts, ",") + `]}`
			if pick%4 == 2 {
				s += "\x00" // the PMCP device's trailing NUL
			}
			return ctl(s)
		}
		parts := []string{fmt.Sprintf(`"phase":"%s"`, phase)} // plain JSON spelling
		if p[2] != "absent" {
			parts = append(parts, fmt.Sprintf(`"waiting":%d`, w))
		}
		if p[3] != "absent" {
			parts = append(parts, fmt.Sprintf(`"prolongationRequest":%s`, p[3]))
		}
		return ctl(`{"connectionHello":{` + strings.Join(parts, ",") + `}}`)
	case "prot":
		f := func(ht string, major, minor int, formats string) []byte {
			return ctl(fmt.Sprintf(`{"messageProtocolHandshake":[{"handshakeType":"%s"},{"version":[{"major":%d},{"minor":%d}]},%s]}`, ht, major, minor, formats))
		}
		utf8 := `{"formats":[{"format":["JSON-UTF8"]}]}`
		switch p[1] {
		case "announceMax":
			// (a proposal may list several formats; the server selects JSON-UTF8)
			return choose(f("announceMax", 1, 0, utf8), f("announceMax", 1, 0, `{"formats":[{"format":["JSON-UTF8","JSON-UTF16"]}]}`),
				f("announceMax", 1, 0, utf8))
		case "select":
			return f("select", 1, 0, utf8)
		case "selectBad":
			return choose(f("select", 2, 0, utf8), f("select", 1, 1, utf8),
				f("select", 1, 0, `{"formats":[{"format":["JSON-UTF8","JSON-UTF16"]}]}`),
				f("select", 1, 0, `{"formats":[{"format":["JSON-UTF16"]}]}`),
				ctl(`{"messageProtocolHandshake":[{"handshakeType":"select"},{"version":[{"major":1},{"minor":0}]}]}`))
		case "selectEmptyFormat":
			return f("select", 1, 0, `{"formats":[{"format":[ ]}]}`)
		}
	case "proterr":
		return ctl(`{"messageProtocolHandshakeError":[{"error":2}]}`)
	case "pin":
		v := map[string]string{"none": "none", "required": "required", "bad": "foo"}[p[1]]
		if p[1] == "required" {
			v = []string{"required", "optional", "pinOk"}[pick%3]
		}
		return choose(ctl(fmt.Sprintf(`{"connectionPinState":[{"pinState":"%s"}]}`, v)),
			ctl(fmt.Sprintf(`{"connectionPinState":{"pinState":"%s"}}`, v)))
	case "accreq":
		return choose(ctl(`{"accessMethodsRequest":[]}`), ctl(`{"accessMethodsRequest":{}}`))
	case "acc":
		switch p[1] {
		case "missing":
			return choose(ctl(`{"accessMethods":[{"dnsSd_mDns":[]}]}`), ctl(`{"accessMethods":{}}`))
		case "illtyped":
			return choose(ctl(`{"accessMethods":[{"id":5}]}`), ctl(`{"accessMethods":[{"id":[{"x":1}]}]}`))
		}
		return choose(ctl(fmt.Sprintf(`{"accessMethods":[{"id":"%s"}]}`, ids[p[1]])),
			ctl(fmt.Sprintf(`{"accessMethods":{"id":"%s"}}`, ids[p[1]])),
			ctl(fmt.Sprintf(`{"accessMethods":[{"id":"%s"},{"dnsSd_mDns":[]}]}`, ids[p[1]])),
			ctl(fmt.Sprintf(`{"accessMethods":[{"id":"%s"},{"dns":[{"uri":"wss://peer.local:4712/ship/"}]}]}`, ids[p[1]])))
	case "close":
		ph := map[string]string{"announce": "announce", "confirm": "confirm", "other": "foo"}[p[1]]
		// maxTime is the ANNOUNCING side's patience; how long the receiving side takes is its own business (500 ms), whatever
		// the peer writes there
		return choose(append([]byte{model.MsgTypeEnd}, []byte(fmt.Sprintf(`{"connectionClose":[{"phase":"%s"},{"maxTime":500}]}`, ph))...),
			ctl(fmt.Sprintf(`{"connectionClose":{"phase":"%s"}}`, ph)),
			append([]byte{model.MsgTypeEnd}, []byte(fmt.Sprintf(`{"connectionClose":[{"phase":"%s"},{"maxTime":4294967295}]}`, ph))...),
			append([]byte{model.MsgTypeEnd}, []byte(fmt.Sprintf(`{"connectionClose":[{"phase":"%s"},{"maxTime":0},{"reason":"bye"}]}`, ph))...),
			append([]byte{model.MsgTypeEnd}, []byte(fmt.Sprintf(`{"connectionClose":[{"phase":"%s"},{"maxTime":86400000}]}`, ph))...))
	case "data":
		return append([]byte{model.MsgTypeData}, []byte(fmt.Sprintf(`{"data":[{"header":[{"protocolId":"ee1.0"}]},{"payload":{"datagram":[{"n":"%s"}]}}]}`, dataID))...)
	case "databad":
		return choose(append([]byte{model.MsgTypeData}, []byte(`{"data":[{"header":[{"protocolId":"datagram"}]}]}`)...),
			ctl(`{"connectionHello":[{"phase":"datagram"}]}`),
			append([]byte{model.MsgTypeData}, []byte(`datagram not json`)...))
	case "garbage":
		return choose(ctl(`this is not json`), ctl(`{`), ctl("\xff\xfe\xfd"), ctl(`[1,2`))
	case "unknown":
		return choose(ctl(`{"foo":[{"bar":1}]}`), ctl(`{"foo":{"bar":1}}`))
	}
	panic("unknown message class " + m)
}

// ---------------------------------------------------------------- structured mutations (C08)

var reToken = regexp.MustCompile(`"[^"]*"|-?\d+|true|false|null|\[\]|\{\}`)

var replacements = []string{`""`, `0`, `-1`, `1e999`, `4294967296`, `true`, `null`, `[]`, `[ ]`, `{}`, `"x"`, `[{}]`, `[[]]`, `"\u0000"`,
	`"` + strings.Repeat("A", 5000) + `"`, strings.Repeat("[", 200) + strings.Repeat("]", 200), `{"a":{"a":{"a":1}}}`, `"datagram"`, `1.5`, `"\ud800"`}

// mutate derives the k-th mutant of a valid message, deterministically from (k, seed)
func mutate(m []byte, k, seed int) []byte {
	h := k*7919 + seed*104729
	if h < 0 {
		h = -h
	}
	body := ""
	if len(m) > 1 {
		body = string(m[1:])
	}
	typ := byte(1)
	if len(m) > 0 {
		typ = m[0]
	}
	switch k % 8 {
	case 0: // replace one JSON token
		locs := reToken.FindAllStringIndex(body, -1)
		if len(locs) == 0 {
			return append([]byte{typ}, []byte(replacements[h%len(replacements)])...)
		}
		l := locs[(h/8)%len(locs)]
		r := replacements[(h/64)%len(replacements)]
		return append([]byte{typ}, []byte(body[:l[0]]+r+body[l[1]:])...)
	case 1: // truncate
		if len(m) == 0 {
			return m
		}
		return append([]byte{}, m[:(h/8)%len(m)]...)
	case 2: // other type byte
		return append([]byte{byte(h / 8)}, []byte(body)...)
	case 3: // duplicate a member / element
		if i := strings.Index(body, "},{"); i >= 0 {
			return append([]byte{typ}, []byte(body[:i+2]+body[i+2:]+body[i+2:])...)
		}
		return append([]byte{typ}, []byte(body+body)...)
	case 4: // drop a member
		if i := strings.Index(body, "},{"); i >= 0 {
			j := strings.LastIndex(body, "}]")
			if j > i {
				return append([]byte{typ}, []byte(body[:i+1]+body[j+1:])...)
			}
		}
		return append([]byte{typ}, []byte(strings.Replace(body, ":", "", 1))...)
	case 5: // invalid UTF-8 / NUL inside
		i := 0
		if len(body) > 0 {
			i = (h / 8) % len(body)
		}
		return append([]byte{typ}, []byte(body[:i]+"\xff\x00\xfe"+body[i:])...)
	case 6: // brackets swapped between the EEBUS and the plain spelling, unbalanced
		r := strings.NewReplacer("[{", "{", "}]", "}")
		if (h/8)%2 == 0 {
			r = strings.NewReplacer("[{", "[[", "}]", "}}")
		}
		return append([]byte{typ}, []byte(r.Replace(body))...)
	default: // pseudo random bytes
		n := 1 + (h/8)%40
		out := make([]byte, n)
		x := uint32(h)
		for i := range out {
			x = x*1664525 + 1013904223
			out[i] = byte(x >> 24)
		}
		return out
	}
}

// ---------------------------------------------------------------- test input / observation output

type act struct {
	A  string `json:"a"`
	E  string `json:"e"`
	M  string `json:"m"`
	ID string `json:"id"`
	C1 *call  `json:"c1,omitempty"` // Par: the two entry points called at the same time
	C2 *call  `json:"c2,omitempty"`
}

// call is one entry point of a Par step: Inject (m, id) | Timeout | Approve | Cancel | Close (m = T / F) | ConnErr
type call struct {
	K  string `json:"k"`
	M  string `json:"m"`
	ID string `json:"id"`
}

type expect struct {
	St       string     `json:"st"`
	TRun     bool       `json:"tRun"`
	TType    string     `json:"tType"`
	Lw       bool       `json:"lw"`
	Reader   bool       `json:"reader"`
	Buf      int        `json:"buf"`
	WsOpen   bool       `json:"wsOpen"`
	Stored   string     `json:"stored"`
	Ev       []vh.Event `json:"ev"`
	Panicked bool       `json:"panicked"`
	Hung     bool       `json:"hung"`
	Pend     []string   `json:"pend"`
}

type step struct {
	A act                 `json:"a"`
	X map[string]expect   `json:"x"` // absent on the prefix steps of an edge test
	N map[string]int      `json:"n"`
	P map[string][]string `json:"p"` // edge tests: delayed goroutines pending after the step
	// Par: the expectation for the other order of the two calls
	Alt map[string]expect `json:"alt"`
	Q   bool              `json:"q"` // pair: the specification's state after this (last) step is a point of rest
}

type cfg struct {
	Name    string `json:"name"`
	Pair    bool   `json:"pair"`
	Role    string `json:"role"`
	Paired  bool   `json:"paired"`
	Auto    bool   `json:"auto"`
	Wait    bool   `json:"wait"`
	Stored  string `json:"stored"`  // what the (server / single) endpoint stored for its peer
	StoredC string `json:"storedC"` // pair: what the client stored for the server
	Timely  bool   `json:"timely"`
}

type test struct {
	ID    int    `json:"id"`
	Cfg   cfg    `json:"cfg"`
	Steps []step `json:"steps"`
}

// ob is what the monitor pass sees of one endpoint after one environment action
type ob struct {
	St       string     `json:"st"`
	TRun     bool       `json:"tRun"`
	WsOpen   bool       `json:"wsOpen"`
	Buf      int        `json:"buf"`
	Ev       []vh.Event `json:"ev"`
	Panicked bool       `json:"panicked"`
	Hung     bool       `json:"hung"`
}

type obsStep struct {
	A  act    `json:"a"`
	E  string `json:"e"` // endpoint this line is about
	Ob ob     `json:"ob"`
}

type obsTrace struct {
	ID    int               `json:"id"`
	Cfg   cfg               `json:"cfg"`
	Roles map[string]string `json:"roles"`
	Steps []obsStep         `json:"steps"`
	Pair  *pairEnd          `json:"pairEnd,omitempty"`
}

// pairEnd is the quiescent end of a pair run, judged by JudgePair (C03)
type pairEnd struct {
	Quiesced bool   `json:"quiesced"`
	C        pairOb `json:"c"`
	S        pairOb `json:"s"`
}
type pairOb struct {
	St     string `json:"st"`
	WsOpen bool   `json:"wsOpen"`
	NSetup int    `json:"nSetup"`
	IDOk   bool   `json:"idOk"`
}

type divergence struct {
	Test int    `json:"test"`
	Cfg  string `json:"cfg"`
	Step int    `json:"step"`
	Act  act    `json:"act"`
	What string `json:"what"`
}

// ---------------------------------------------------------------- one endpoint under test

type endpoint struct {
	name    string
	role    string
	log     *vh.Log
	info    *info
	w       *writer
	c       *ship.ShipConnection
	mark    int            // log position at the start of the current step
	blocked *vh.CallResult // an Inject(close announce) call that is still sleeping
	annHung bool           // ... and did not return although far more than its 500 ms passed: the receive loop is blocked
	dead    bool
	queue   [][]byte // pair: frames in flight to this endpoint; nil entry = end of stream
	qmu     sync.Mutex
}

func newEndpoint(name, role string, paired, auto, wait bool, stored, localID string) *endpoint {
	e := &endpoint{name: name, role: role, log: &vh.Log{}}
	e.info = &info{log: e.log, paired: paired, auto: auto, wait: wait, rd: &reader{log: e.log}}
	e.w = &writer{log: e.log}
	r := ship.ShipRoleServer
	if role == "client" {
		r = ship.ShipRoleClient
	}
	st := ""
	if stored != "none" {
		st = ids[stored]
	}
	e.c = ship.NewConnectionHandler(e.info, e.w, r, ids[localID], "remoteski-of-"+name, st)
	return e
}

func (e *endpoint) observe(panicked, hung bool) (ob, expect) {
	s := e.c.VerifSnapshot()
	ev := e.log.Since(e.mark)
	if ev == nil {
		ev = []vh.Event{}
	}
	e.mark += len(ev) // nothing the real code does is ever dropped: a late event is seen by the next observation
	o := ob{St: stName(s.State), TRun: s.TimerRunning, WsOpen: !e.w.isClosed(), Buf: s.BufLen, Ev: ev, Panicked: panicked, Hung: hung}
	stored := "none"
	if s.RemoteShipID != "" {
		stored = absID(s.RemoteShipID)
	}
	tt := "?"
	if s.TimerType >= 0 && s.TimerType < len(timerNames) {
		tt = timerNames[s.TimerType]
	}
	x := expect{St: o.St, TRun: o.TRun, TType: tt, Lw: s.LastWaitingSet, Reader: s.ReaderSet, Buf: s.BufLen,
		WsOpen: o.WsOpen, Stored: stored, Ev: ev, Panicked: panicked, Hung: hung}
	return o, x
}

// normSleep: which of two goroutines that wake up at the same instant reports the end first is not determined,
// so the completed-flag of a closed report is not compared on Sleep steps
func normSleep(ev []vh.Event) []vh.Event {
	out := make([]vh.Event, len(ev))
	for i, e := range ev {
		if e.K == "closed" {
			e.V = "*"
		}
		out[i] = e
	}
	// ... and neither is the order in which goroutines of the same sleep class act (seen once in 28 000 behaviours)
	sort.SliceStable(out, func(i, j int) bool { return fmt.Sprint(out[i]) < fmt.Sprint(out[j]) })
	return out
}

var parNonSeq atomic.Int64

// parCall is one entry point of a Par step on the real connection
func parCall(e *endpoint, c *call, pick int, token interface{}) func() {
	switch c.K {
	case "Inject":
		msg := concrete(c.M, c.ID, pick)
		return func() { e.c.HandleIncomingWebsocketMessage(msg) }
	case "Timeout":
		// what the timer's goroutine does when it expires: nothing if the timer was stopped or replaced meanwhile
		return func() { e.c.VerifFireTimeoutOf(token) }
	case "Approve":
		return func() {
			e.info.mu.Lock()
			e.info.paired, e.info.wait = true, true
			e.info.mu.Unlock()
			e.c.ApprovePendingHandshake()
		}
	case "Cancel":
		return func() {
			e.c.AbortPendingHandshake()
			e.info.mu.Lock()
			e.info.paired = false
			e.info.mu.Unlock()
		}
	case "Close":
		if c.M == "T" {
			return func() { e.c.CloseConnection(true, 4500, "User close") }
		}
		return func() { e.c.CloseConnection(false, 0, "") }
	case "ConnErr":
		return func() {
			e.w.mu.Lock()
			e.w.closed = true
			e.w.mu.Unlock()
			e.c.ReportConnectionError(errors.New("injected transport error"))
		}
	}
	panic("unknown call " + c.K)
}

func diff(real, exp expect) string {
	var d []string
	add := func(k string, a, b interface{}) {
		if fmt.Sprint(a) != fmt.Sprint(b) {
			d = append(d, fmt.Sprintf("%s real=%v spec=%v", k, a, b))
		}
	}
	add("st", real.St, exp.St)
	add("tRun", real.TRun, exp.TRun)
	if real.TRun && exp.TRun {
		add("tType", real.TType, exp.TType)
	}
	add("lw", real.Lw, exp.Lw)
	add("reader", real.Reader, exp.Reader)
	add("buf", real.Buf, exp.Buf)
	add("wsOpen", real.WsOpen, exp.WsOpen)
	add("stored", real.Stored, exp.Stored)
	add("panicked", real.Panicked, exp.Panicked)
	add("hung", real.Hung, exp.Hung)
	if !exp.Panicked && !exp.Hung && !real.Panicked && !real.Hung {
		add("ev", real.Ev, exp.Ev)
	}
	sort.Strings(d)
	return strings.Join(d, " | ")
}

const callDeadline = 4 * time.Second

// run tokens: only a few behaviours execute steps at the same time, so that the time between two steps of one
// behaviour stays far below the library's shortest delay (500 ms); a token is handed back while a behaviour sleeps
var tokens chan struct{}

func acquire() { tokens <- struct{}{} }
func release() { <-tokens }
func sleepReleased(d time.Duration) {
	release()
	time.Sleep(d)
	acquire()
}

// runTest replays one behaviour. It never stops at a divergence: the remaining environment actions
// are still applied to the real objects, so the observation trace is a genuine run of the real code.
func runTest(t *test, seed int) (obsTrace, *divergence) {
	acquire()
	defer release()
	eps := map[string]*endpoint{}
	if t.Cfg.Pair {
		c := newEndpoint("c", "client", true, false, true, t.Cfg.StoredC, "A")
		s := newEndpoint("s", "server", t.Cfg.Paired, t.Cfg.Auto, t.Cfg.Wait, t.Cfg.Stored, "B")
		c.w.out = func(m []byte) { s.qmu.Lock(); s.queue = append(s.queue, m); s.qmu.Unlock() }
		s.w.out = func(m []byte) { c.qmu.Lock(); c.queue = append(c.queue, m); c.qmu.Unlock() }
		eps["c"], eps["s"] = c, s
	} else {
		eps["x"] = newEndpoint("x", t.Cfg.Role, t.Cfg.Paired, t.Cfg.Auto, t.Cfg.Wait, t.Cfg.Stored, "B")
	}
	names := make([]string, 0, 2)
	for n := range eps {
		names = append(names, n)
	}
	sort.Strings(names)
	tr := obsTrace{ID: t.ID, Cfg: t.Cfg, Roles: map[string]string{}}
	for _, n := range names {
		tr.Roles[n] = eps[n].role
	}
	defer func() {
		for _, e := range eps {
			e.log.End()
		}
	}()
	var div *divergence
	noteDiv := func(i int, a act, what string) {
		if div == nil {
			div = &divergence{Test: t.ID, Cfg: t.Cfg.Name, Step: i, Act: a, What: what}
		}
	}
	has1s := false // a 1 s goroutine may be pending (from the previous expectation, or unknown after a divergence)
	anyPend := false
	stop := false
	for i, st := range t.Steps {
		if stop {
			break
		}
		a := st.A
		if a.A == "Nop" || a.A == "Tick" {
			continue
		}
		pick := seed + t.ID*7 + i
		var res, parRes *vh.CallResult
		obsAct := a
		who := []string{a.E}
		switch a.A {
		case "Sleep":
			who = names
			for _, e := range eps {
				if e.blocked != nil {
					release()
					select {
					case <-e.blocked.Done:
					case <-time.After(callDeadline):
						e.annHung = true
					}
					acquire()
					e.blocked = nil
				}
			}
			d := 800 * time.Millisecond
			if has1s || div != nil {
				d = 1300 * time.Millisecond
			}
			sleepReleased(d)
			// under load a delayed goroutine can be late: wait (bounded) until the expected number of events is there
			for k := 0; k < 100; k++ {
				late := false
				for n, e := range eps {
					if x, ok := st.X[n]; ok && e.log.Len()-e.mark < len(x.Ev) {
						late = true
					}
				}
				if !late {
					break
				}
				sleepReleased(20 * time.Millisecond)
			}
		case "PropagateClose":
			e := eps[a.E]
			peer := eps[peerOf(a.E)]
			_ = e
			peer.qmu.Lock()
			peer.queue = append(peer.queue, nil)
			peer.qmu.Unlock()
			who = nil
		default:
			e := eps[a.E]
			if e == nil || e.dead {
				continue
			}
			var f func()
			switch a.A {
			case "Run":
				f = func() { e.c.Run() }
			case "Inject":
				msg := concrete(a.M, a.ID, pick)
				f = func() { e.c.HandleIncomingWebsocketMessage(msg) }
			case "Mutate":
				// C08: a structured mutation of a valid message of class a.M (mutation number a.ID)
				k, _ := strconv.Atoi(a.ID)
				msg := mutate(concrete(a.M, "d1", pick), k, seed)
				obsAct = act{A: "Inject", E: a.E, M: "mutant", ID: ""}
				f = func() { e.c.HandleIncomingWebsocketMessage(msg) }
			case "Deliver":
				e.qmu.Lock()
				if len(e.queue) == 0 {
					e.qmu.Unlock()
					noteDiv(i, a, "Deliver but the real queue is empty")
					continue
				}
				msg := e.queue[0]
				e.queue = e.queue[1:]
				e.qmu.Unlock()
				if msg == nil {
					obsAct.M, obsAct.ID = "eos", ""
					f = func() {
						if !e.w.isClosed() {
							e.w.mu.Lock()
							e.w.closed = true
							e.w.mu.Unlock()
							e.c.ReportConnectionError(errors.New("peer closed the connection"))
						}
					}
				} else {
					_, m, id := classify(msg)
					obsAct.M, obsAct.ID = m, id
					f = func() {
						if !e.w.isClosed() {
							e.c.HandleIncomingWebsocketMessage(msg)
						}
					}
				}
			case "FireTimeout":
				f = func() {
					if !e.c.VerifFireTimeout() {
						noteDiv(i, a, "FireTimeout but no timer is armed in the real connection")
					}
				}
			case "Approve":
				f = func() {
					e.info.mu.Lock()
					e.info.paired, e.info.wait = true, true
					e.info.mu.Unlock()
					e.c.ApprovePendingHandshake()
				}
			case "Cancel":
				f = func() {
					e.c.AbortPendingHandshake()
					e.info.mu.Lock()
					e.info.paired = false
					e.info.mu.Unlock()
				}
			case "WsFail":
				f = func() { e.w.mu.Lock(); e.w.closed = true; e.w.mu.Unlock() }
			case "ConnError":
				f = func() { e.c.ReportConnectionError(errors.New("injected transport error")) }
			case "Close":
				if a.M == "T" {
					f = func() { e.c.CloseConnection(true, 4500, "User close") }
				} else {
					f = func() { e.c.CloseConnection(false, 0, "") }
				}
			case "ArmWriteFailure":
				k, _ := strconv.Atoi(a.M)
				f = func() { e.w.mu.Lock(); e.w.failAt = k; e.w.mu.Unlock() }
			case "SetAllowWait":
				f = func() { e.info.mu.Lock(); e.info.wait = a.M == "T"; e.info.mu.Unlock() }
			case "WriteSpine":
				payload := []byte(fmt.Sprintf(`{"datagram":{"n":"%s"}}`, a.ID))
				f = func() { e.c.WriteShipMessageWithPayload(payload) }
			case "Par":
				// two entry points at the same time, from two goroutines released together
				var token interface{}
				if a.C1.K == "Timeout" || a.C2.K == "Timeout" {
					token = e.c.VerifTimerToken()
				}
				f1 := parCall(e, a.C1, pick, token)
				f2 := parCall(e, a.C2, pick, token)
				e.info.mu.Lock()
				e.info.slowClosed = true
				e.info.mu.Unlock()
				f = func() {
					start := make(chan struct{})
					r1 := make(chan *vh.CallResult, 1)
					r2 := make(chan *vh.CallResult, 1)
					go func() { <-start; r1 <- vh.Call(callDeadline, f1) }()
					go func() { <-start; r2 <- vh.Call(callDeadline, f2) }()
					close(start)
					a1, a2 := <-r1, <-r2
					parRes = &vh.CallResult{Panicked: a1.Panicked || a2.Panicked, Hung: a1.Hung || a2.Hung, PanicMsg: a1.PanicMsg + a2.PanicMsg}
				}
			default:
				panic("unknown action " + a.A)
			}
			announce := (a.A == "Inject" || a.A == "Deliver") && obsAct.M == "close.announce"
			if announce {
				// the handler blocks its caller (the read pump) for 500 ms; let it, and go on once the confirm is out
				res = vh.Call(time.Millisecond, f)
				for t0 := time.Now(); res.Hung && time.Since(t0) < 250*time.Millisecond; {
					select {
					case <-res.Done:
						res.Hung = false
					default:
						if e.log.Has(e.mark, "sentclose", "close.confirm") {
							t0 = t0.Add(-time.Second)
						} else {
							time.Sleep(500 * time.Microsecond)
						}
					}
				}
				if res.Hung {
					res.Hung = false
					e.blocked = res
				}
			} else {
				res = vh.Call(2*callDeadline, f)
				if parRes != nil {
					res = parRes
				}
			}
		}
		for _, n := range who {
			e := eps[n]
			if e == nil {
				continue
			}
			panicked, hung := false, false
			if res != nil && n == a.E {
				panicked, hung = res.Panicked, res.Hung
			}
			if a.A == "Sleep" && e.annHung {
				hung = true // the handler of the peer's close announce never returned (C08: the receive loop is blocked)
			}
			o, real := e.observe(panicked, hung)
			tr.Steps = append(tr.Steps, obsStep{A: obsAct, E: n, Ob: o})
			if exp, ok := st.X[n]; ok {
				if a.A == "Sleep" {
					real.Ev, exp.Ev = normSleep(real.Ev), normSleep(exp.Ev)
				}
				if d := diff(real, exp); d != "" {
					if alt, ok := st.Alt[n]; a.A == "Par" && ok {
						// neither order of the two calls explains the outcome: the entry points did not act atomically
						if diff(real, alt) != "" {
							parNonSeq.Add(1)
						}
					} else {
						noteDiv(i, a, n+": "+d)
					}
				}
			}
			if panicked || hung {
				e.dead = true
				if !t.Cfg.Pair {
					stop = true
				}
			}
		}
		if t.Cfg.Pair {
			for _, n := range names {
				e := eps[n]
				e.qmu.Lock()
				l := len(e.queue)
				e.qmu.Unlock()
				if want, ok := st.N[n]; ok && want != l {
					noteDiv(i, a, fmt.Sprintf("%s: queue length real=%d spec=%d", n, l, want))
				}
			}
		}
		has1s, anyPend = false, false
		for _, x := range st.X {
			for _, p := range x.Pend {
				anyPend = true
				if p == "T1s" {
					has1s = true
				}
			}
		}
		for _, ps := range st.P {
			for _, p := range ps {
				anyPend = true
				if p == "T1s" {
					has1s = true
				}
			}
		}
	}
	// final drain: let every delayed goroutine of the real connections run, then take a last observation
	needDrain := anyPend || div != nil
	for _, e := range eps {
		if e.blocked != nil {
			needDrain = true
		}
		if s := e.c.VerifSnapshot(); s.State == model.SmeHelloStateAbortDone || s.State == model.SmeHelloStateRemoteAbortDone {
			needDrain = true
		}
	}
	if needDrain && !stop {
		sleepReleased(1300 * time.Millisecond)
		// on a loaded machine a delayed goroutine of the library can be late: a transport that is closed while the end of the
		// connection has not been reported yet is given more time (bounded) before the last observation is taken
		for k := 0; k < 150; k++ {
			late := false
			for _, e := range eps {
				if !e.dead && e.w.isClosed() && countEv(e.log, "closed") == 0 {
					late = true
				}
			}
			if !late {
				break
			}
			sleepReleased(20 * time.Millisecond)
		}
		for _, n := range names {
			e := eps[n]
			if e.dead {
				continue
			}
			stillBlocked := false
			if e.blocked != nil {
				select {
				case <-e.blocked.Done:
				case <-time.After(callDeadline - 1300*time.Millisecond):
					stillBlocked = true
				}
				e.blocked = nil
			}
			o, _ := e.observe(false, stillBlocked)
			tr.Steps = append(tr.Steps, obsStep{A: act{A: "Sleep", E: "", M: "end", ID: ""}, E: n, Ob: o})
		}
	}
	if t.Cfg.Pair {
		// the pair is judged where the specification says it has come to rest (nothing in flight, no timer armed, no delayed
		// goroutine pending) - a behaviour that ends in the middle of a handshake is not judged as an outcome
		pe := &pairEnd{Quiesced: !stop && len(t.Steps) > 0 && t.Steps[len(t.Steps)-1].Q}
		for _, n := range names {
			e := eps[n]
			s := e.c.VerifSnapshot()
			po := pairOb{St: stName(s.State), WsOpen: !e.w.isClosed(), NSetup: countEv(e.log, "setup"), IDOk: s.RemoteShipID != ""}
			if n == "c" {
				pe.C = po
			} else {
				pe.S = po
			}
		}
		tr.Pair = pe
	}
	return tr, div
}

func countEv(l *vh.Log, k string) int {
	n := 0
	for _, e := range l.Since(0) {
		if e.K == k {
			n++
		}
	}
	return n
}

func peerOf(e string) string {
	if e == "c" {
		return "s"
	}
	return "c"
}

func main() {
	testsPath := flag.String("tests", "", "ndjson file with behaviours generated by TLC")
	obsPath := flag.String("obs", "", "ndjson file to write the observation traces to")
	sumPath := flag.String("summary", "", "json file to write the summary to")
	par := flag.Int("par", 8192, "parallel tests")
	prof := flag.String("cpuprofile", "", "write a cpu profile")
	flag.Parse()
	if *prof != "" {
		f, _ := os.Create(*prof)
		pprof.StartCPUProfile(f)
		defer pprof.StopCPUProfile()
	}
	seed := vh.EnvInt("VERIF_SEED", 1)
	tokens = make(chan struct{}, vh.EnvInt("VERIF_TOKENS", 2*runtime.GOMAXPROCS(0)))

	var tests []*test
	err := vh.ReadLines(*testsPath, func(line []byte) error {
		t := &test{}
		if err := json.Unmarshal(line, t); err != nil {
			return err
		}
		tests = append(tests, t)
		return nil
	})
	if err != nil {
		fmt.Fprintln(os.Stderr, "reading tests:", err)
		os.Exit(2)
	}
	out, err := vh.NewWriter(*obsPath)
	if err != nil {
		fmt.Fprintln(os.Stderr, err)
		os.Exit(2)
	}
	var mu sync.Mutex
	divs := []divergence{}
	steps := 0
	t0 := time.Now()
	vh.Pool(len(tests), *par, func(i int) {
		tr, d := runTest(tests[i], seed)
		out.Write(tr)
		mu.Lock()
		steps += len(tr.Steps)
		if d != nil {
			divs = append(divs, *d)
		}
		mu.Unlock()
	})
	out.Close()
	sort.Slice(divs, func(i, j int) bool { return divs[i].Test < divs[j].Test })
	sum := map[string]interface{}{
		"tests": len(tests), "steps": steps, "divergences": len(divs), "par_not_sequential": parNonSeq.Load(), "wall_s": time.Since(t0).Seconds(),
	}
	if len(divs) > 200 {
		sum["divergence_samples"] = divs[:200]
	} else {
		sum["divergence_samples"] = divs
	}
	b, _ := json.MarshalIndent(sum, "", " ")
	if err := os.WriteFile(*sumPath, b, 0o644); err != nil {
		fmt.Fprintln(os.Stderr, err)
		os.Exit(2)
	}
	fmt.Printf("sme: %d behaviours, %d observed steps, %d diverge from the specification, %.1fs\n", len(tests), steps, len(divs), time.Since(t0).Seconds())
}
