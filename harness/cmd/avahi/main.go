// Command avahi runs TLC-generated environment scripts (spec/Avahi.tla) against the real mdns.AvahiProvider on a fake
// Avahi daemon (C19): the daemon can go away (Disconnected event, everything it held is lost), stay unreachable and
// come back; the script interleaves that with Announce / Unannounce / Shutdown and with passages of real time (the
// reconnect loop sleeps 1 s). The daemon-side state at the end and every call the provider makes are recorded for
// the TLC monitor pass (spec/MonAvahi.tla).
package main

import (
	"encoding/json"
	"errors"
	"flag"
	"fmt"
	"net"
	"os"
	"regexp"
	"strconv"
	"sync"
	"time"

	"github.com/enbility/go-avahi"
	"github.com/enbility/ship-go/mdns"
	"github.com/godbus/dbus/v5"

	"verifharness/vh"
)

type opT struct {
	Op string `json:"op"`
	V  int    `json:"v"`
}
type scriptT struct {
	ID  int   `json:"id"`
	Ops []opT `json:"ops"`
}
type evT struct {
	Seq int    `json:"seq"`
	Ev  string `json:"ev"`
	V   int    `json:"v"`
}
type finalT struct {
	DaemonUp       bool `json:"daemonUp"`
	Browsers       int  `json:"browsers"`
	Published      int  `json:"published"`
	Requested      int  `json:"requested"`
	Shutdown       bool `json:"shutdown"`
	ShutdownHung   bool `json:"shutdownHung"`
	Panicked       bool `json:"panicked"`
	BrowseSent     bool `json:"browseSent"`
	BrowseReported bool `json:"browseReported"`
}
type obsT struct {
	ID     int    `json:"id"`
	Ops    []opT  `json:"ops"`
	Events []evT  `json:"events"`
	Final  finalT `json:"final"`
}

type elog struct {
	mu sync.Mutex
	ev []evT
}

func (l *elog) add(name string, v int) {
	l.mu.Lock()
	l.ev = append(l.ev, evT{Seq: len(l.ev) + 1, Ev: name, V: v})
	l.mu.Unlock()
}

// ---------------------------------------------------------------- fake daemon

type fakeBrowser struct {
	avahi.ServiceBrowserInterface
	inc  int
	add  chan avahi.Service
	free bool
}

func (b *fakeBrowser) GetObjectPath() dbus.ObjectPath { return "/browser" }

type fakeGroup struct {
	avahi.EntryGroupInterface
	d   *daemon
	inc int
	txt int
}

var reV = regexp.MustCompile(`^v=(\d+)$`)

func (g *fakeGroup) AddService(iface, protocol int32, flags uint32, name, serviceType, domain, host string, port uint16, txt [][]byte) error {
	g.d.mu.Lock()
	defer g.d.mu.Unlock()
	if !g.d.up || g.inc != g.d.inc {
		return errors.New("daemon not available")
	}
	for _, t := range txt {
		if m := reV.FindStringSubmatch(string(t)); m != nil {
			g.txt, _ = strconv.Atoi(m[1])
		}
	}
	return nil
}
func (g *fakeGroup) Commit() error {
	g.d.mu.Lock()
	defer g.d.mu.Unlock()
	if !g.d.up || g.inc != g.d.inc {
		return errors.New("daemon not available")
	}
	g.d.published = g
	g.d.l.add("Commit", g.txt)
	return nil
}
func (g *fakeGroup) GetObjectPath() dbus.ObjectPath { return "/group" }

type daemon struct {
	avahi.ServerInterface
	mu        sync.Mutex
	l         *elog
	up        bool
	inc       int // incarnation: what an earlier incarnation held is gone
	cb        avahi.EventCB
	browsers  []*fakeBrowser
	published *fakeGroup
	hold      chan struct{} // the next ResolveService waits for this channel to be closed
	entered   chan struct{} // closed when that ResolveService call has started
}

func (d *daemon) Setup(cb avahi.EventCB) error {
	d.mu.Lock()
	defer d.mu.Unlock()
	d.l.add("Setup", 0)
	if !d.up {
		return errors.New("dbus: daemon not available")
	}
	d.cb = cb
	return nil
}
func (d *daemon) Start()    { d.l.add("ServerStart", 0) }
func (d *daemon) Shutdown() { d.l.add("ServerShutdown", 0) }
func (d *daemon) GetAPIVersion() (int32, error) {
	d.mu.Lock()
	defer d.mu.Unlock()
	if !d.up {
		return 0, errors.New("daemon not available")
	}
	return 515, nil
}
func (d *daemon) ServiceBrowserNew(addChan, removeChan chan avahi.Service, iface, protocol int32, serviceType string, domain string, flags uint32) (avahi.ServiceBrowserInterface, error) {
	d.mu.Lock()
	defer d.mu.Unlock()
	if !d.up {
		return nil, errors.New("daemon not available")
	}
	b := &fakeBrowser{inc: d.inc, add: addChan}
	d.browsers = append(d.browsers, b)
	d.l.add("BrowserNew", 0)
	return b, nil
}
func (d *daemon) ServiceBrowserFree(r avahi.ServiceBrowserInterface) {
	d.mu.Lock()
	defer d.mu.Unlock()
	if b, ok := r.(*fakeBrowser); ok {
		b.free = true
	}
	d.l.add("BrowserFree", 0)
}
func (d *daemon) EntryGroupNew() (avahi.EntryGroupInterface, error) {
	d.mu.Lock()
	defer d.mu.Unlock()
	d.l.add("GroupNew", 0)
	if !d.up {
		return nil, errors.New("daemon not available")
	}
	return &fakeGroup{d: d, inc: d.inc}, nil
}
func (d *daemon) EntryGroupFree(r avahi.EntryGroupInterface) {
	d.mu.Lock()
	defer d.mu.Unlock()
	if g, ok := r.(*fakeGroup); ok && d.published == g {
		d.published = nil
	}
	d.l.add("GroupFree", 0)
}
func (d *daemon) ResolveService(iface, protocol int32, name, serviceType, domain string, aprotocol int32, flags uint32) (avahi.Service, error) {
	// a resolve is a D-Bus round trip: the script may hold the answer back (BrowseAdd .. ResolveDone)
	d.mu.Lock()
	hold := d.hold
	entered := d.entered
	d.hold, d.entered = nil, nil
	d.mu.Unlock()
	if hold != nil {
		close(entered)
		<-hold
	}
	return avahi.Service{Interface: iface, Protocol: protocol, Name: name, Type: serviceType, Domain: domain, Host: "peer.local", Address: "192.168.1.77", Port: 4712,
		Txt: [][]byte{[]byte("txtvers=1"), []byte("id=peer"), []byte("path=/ship/"), []byte("ski=0123456789abcdef0123456789abcdef01234567"), []byte("register=false")}}, nil
}

func (d *daemon) liveBrowsers() []*fakeBrowser {
	var out []*fakeBrowser
	for _, b := range d.browsers {
		if !b.free && b.inc == d.inc && d.up {
			out = append(out, b)
		}
	}
	return out
}

// ---------------------------------------------------------------- one script

func runScript(s *scriptT) obsT {
	l := &elog{}
	d := &daemon{l: l, up: true}
	o := obsT{ID: s.ID, Ops: s.Ops}
	p := mdns.VerifNewAvahiProviderWithServer([]int32{avahi.InterfaceUnspec}, d)
	var rmu sync.Mutex
	resolved := 0
	cb := func(elements map[string]string, name, host string, addresses []net.IP, port int, remove bool) {
		rmu.Lock()
		resolved++
		rmu.Unlock()
	}
	if !p.Start(true, cb) {
		l.add("StartFailed", 0)
		o.Events = l.ev
		return o
	}
	requested := 0
	shutdown := false
	var held chan struct{}                  // the answer to a resolve request is being held back
	var pendingShutdown chan *vh.CallResult // a Shutdown call that waits for the listener
	for _, op := range s.Ops {
		switch op.Op {
		case "Announce":
			l.add("AnnounceStart", op.V)
			cr := vh.Call(3*time.Second, func() { _ = p.Announce("service", 4711, []string{"txtvers=1", fmt.Sprintf("v=%d", op.V)}) })
			o.Final.Panicked = o.Final.Panicked || cr.Panicked
			l.add("AnnounceEnd", op.V)
			requested = op.V
		case "Unannounce":
			l.add("UnannounceStart", 0)
			cr := vh.Call(3*time.Second, func() { p.Unannounce() })
			o.Final.Panicked = o.Final.Panicked || cr.Panicked
			l.add("UnannounceEnd", 0)
			requested = 0
		case "DaemonDown":
			d.mu.Lock()
			d.up = false
			d.inc++
			d.published = nil
			cbk := d.cb
			d.mu.Unlock()
			l.add("DaemonDown", 0)
			if cbk != nil {
				go cbk(avahi.Disconnected) // go-avahi raises the event on its own goroutine
			}
			time.Sleep(30 * time.Millisecond) // the callback has started its reconnect loop (which now sleeps 1 s)
		case "DaemonUp":
			d.mu.Lock()
			d.up = true
			d.mu.Unlock()
			l.add("DaemonUp", 0)
		case "BrowseAdd":
			// a service appears; the daemon holds the answer to the provider's resolve request back until ResolveDone
			d.mu.Lock()
			live := d.liveBrowsers()
			hold, entered := make(chan struct{}), make(chan struct{})
			if len(live) > 0 {
				d.hold, d.entered = hold, entered
			}
			d.mu.Unlock()
			l.add("BrowseAdd", 0)
			if len(live) > 0 {
				sent := false
				func() {
					defer func() { _ = recover() }()
					select {
					case live[len(live)-1].add <- avahi.Service{Interface: 1, Protocol: 0, Name: "early", Type: "_ship._tcp", Domain: "local"}:
						sent = true
					case <-time.After(500 * time.Millisecond):
					}
				}()
				if sent {
					select {
					case <-entered:
						held = hold
					case <-time.After(500 * time.Millisecond):
					}
				}
				if held == nil {
					d.mu.Lock()
					d.hold, d.entered = nil, nil
					d.mu.Unlock()
				}
			}
		case "ResolveDone":
			l.add("ResolveDone", 0)
			if held != nil {
				close(held)
				held = nil
			}
			if pendingShutdown != nil {
				// the Shutdown that was called while the listener was resolving must return now
				select {
				case cr := <-pendingShutdown:
					o.Final.Panicked = o.Final.Panicked || cr.Panicked
				case <-time.After(3 * time.Second):
					o.Final.ShutdownHung = true
				}
				pendingShutdown = nil
				l.add("ShutdownEnd", 0)
			}
			time.Sleep(20 * time.Millisecond)
		case "Shutdown":
			l.add("ShutdownStart", 0)
			shutdown = true
			requested = 0
			if held != nil {
				// the listener is inside ResolveService: Shutdown waits for it, so it is called on its own goroutine and has
				// to return once the daemon has answered (ResolveDone)
				ch := make(chan *vh.CallResult, 1)
				go func() { ch <- vh.Call(30*time.Second, func() { p.Shutdown() }) }()
				pendingShutdown = ch
				time.Sleep(30 * time.Millisecond)
				break
			}
			cr := vh.Call(3*time.Second, func() { p.Shutdown() })
			if cr.Hung {
				o.Final.ShutdownHung = true
			}
			o.Final.Panicked = o.Final.Panicked || cr.Panicked
			l.add("ShutdownEnd", 0)
		case "Wait":
			l.add("WaitStart", 0)
			time.Sleep(1300 * time.Millisecond)
			l.add("WaitEnd", 0)
		}
	}
	if held != nil {
		close(held)
	}
	if pendingShutdown != nil {
		select {
		case <-pendingShutdown:
		case <-time.After(3 * time.Second):
			o.Final.ShutdownHung = true
		}
		l.add("ShutdownEnd", 0)
	}
	// final state on the daemon side
	d.mu.Lock()
	live := d.liveBrowsers()
	o.Final.DaemonUp = d.up
	o.Final.Browsers = len(live)
	if d.published != nil && d.up && d.published.inc == d.inc {
		o.Final.Published = d.published.txt
	}
	d.mu.Unlock()
	o.Final.Requested = requested
	o.Final.Shutdown = shutdown
	// a service that appears now is resolved and reported
	if len(live) > 0 {
		rmu.Lock()
		before := resolved
		rmu.Unlock()
		func() {
			defer func() { _ = recover() }() // the provider may have closed the channel of a browser it never freed
			select {
			case live[len(live)-1].add <- avahi.Service{Interface: 1, Protocol: 0, Name: "peer", Type: "_ship._tcp", Domain: "local"}:
				o.Final.BrowseSent = true
			case <-time.After(500 * time.Millisecond):
			}
		}()
		time.Sleep(50 * time.Millisecond)
		rmu.Lock()
		o.Final.BrowseReported = resolved > before
		rmu.Unlock()
	}
	l.mu.Lock()
	o.Events = append([]evT{}, l.ev...)
	l.mu.Unlock()
	if !shutdown {
		vh.Call(3*time.Second, func() { p.Shutdown() })
	}
	return o
}

func main() {
	in := flag.String("scripts", "", "ndjson scripts")
	obs := flag.String("obs", "", "ndjson observations")
	sum := flag.String("summary", "", "summary json")
	par := flag.Int("par", 512, "scripts in flight")
	flag.Parse()
	var scripts []*scriptT
	if err := vh.ReadLines(*in, func(b []byte) error {
		s := &scriptT{}
		if err := json.Unmarshal(b, s); err != nil {
			return err
		}
		scripts = append(scripts, s)
		return nil
	}); err != nil || len(scripts) == 0 {
		fmt.Fprintln(os.Stderr, "no scripts:", err)
		os.Exit(2)
	}
	out, err := vh.NewWriter(*obs)
	if err != nil {
		fmt.Fprintln(os.Stderr, err)
		os.Exit(2)
	}
	t0 := time.Now()
	vh.Pool(len(scripts), *par, func(i int) { out.Write(runScript(scripts[i])) })
	out.Close()
	b, _ := json.MarshalIndent(map[string]interface{}{"scripts": len(scripts), "wall_s": time.Since(t0).Seconds()}, "", " ")
	_ = os.WriteFile(*sum, b, 0o644)
	fmt.Printf("avahi: %d scripts, %.1fs\n", len(scripts), time.Since(t0).Seconds())
}
