// Command timer runs TLC-generated arm / stop / re-arm scripts (spec/TimerGen.tla) against the real handshake
// timer of ship.ShipConnection (C14). A server connection is driven into pending-listen, where every delivered
// timeout is observable from outside: the connection writes a hello "pending + prolongationRequest" frame (and
// arms a 60 s timer). Timers are armed with real, short durations through the verif hooks; nothing is emulated.
// Events are time stamped under one mutex; spec/MonTimer.tla judges them.
package main

import (
	"encoding/json"
	"errors"
	"flag"
	"fmt"
	"os"
	"runtime"
	"strings"
	"sync"
	"time"

	"github.com/enbility/ship-go/api"
	"github.com/enbility/ship-go/model"
	"github.com/enbility/ship-go/ship"

	"verifharness/vh"
)

const (
	shortMs = 80
	longMs  = 400
	soon    = 10 * time.Millisecond
)

type op struct {
	Op    string `json:"op"`
	Dur   string `json:"dur"`
	Gap   string `json:"gap"`
	Fires int    `json:"fires"`
}

type script struct {
	ID  int  `json:"id"`
	Ops []op `json:"ops"`
}

type event struct {
	K   string `json:"k"`
	T   int64  `json:"t"`            // ms since the start of the script, taken under the log mutex
	T0  int64  `json:"t0,omitempty"` // ArmEnd: when the arm call started
	Dur int    `json:"dur,omitempty"`
}

type tlog struct {
	mu    sync.Mutex
	start time.Time
	ev    []event
	fires int
	ended bool
}

func (l *tlog) add(k string, t0 int64, dur int) int64 {
	l.mu.Lock()
	defer l.mu.Unlock()
	t := time.Since(l.start).Milliseconds()
	if !l.ended {
		l.ev = append(l.ev, event{K: k, T: t, T0: t0, Dur: dur})
		if k == "Fire" {
			l.fires++
		}
	}
	return t
}

type info struct{ l *tlog }

func (f *info) IsRemoteServiceForSKIPaired(string) bool                    { return false }
func (f *info) IsAutoAcceptEnabled() bool                                  { return false }
func (f *info) AllowWaitingForTrust(string) bool                           { return true }
func (f *info) HandleConnectionClosed(api.ShipConnectionInterface, bool)   { f.l.add("Closed", 0, 0) }
func (f *info) ReportServiceShipID(string, string)                         {}
func (f *info) HandleShipHandshakeStateUpdate(_ string, s model.ShipState) {}
func (f *info) SetupRemoteDevice(string, api.ShipConnectionDataWriterInterface) api.ShipConnectionDataReaderInterface {
	return nil
}

type writer struct{ l *tlog }

func (w *writer) InitDataProcessing(api.WebsocketDataReaderInterface) {}
func (w *writer) WriteMessageToWebsocketConnection(m []byte) error {
	if strings.Contains(string(m), `"prolongationRequest":true`) {
		w.l.add("Fire", 0, 0) // a handshake timeout was delivered in pending-listen
	}
	return nil
}
func (w *writer) CloseDataConnection(int, string)       {}
func (w *writer) IsDataConnectionClosed() (bool, error) { return false, nil }

type result struct {
	ID     int     `json:"id"`
	Ops    []op    `json:"ops"`
	Events []event `json:"events"`
	Diverg string  `json:"diverg,omitempty"`
}

var tokens chan struct{}

func sleepReleased(d time.Duration) {
	<-tokens
	time.Sleep(d)
	tokens <- struct{}{}
}

func runScript(s *script) result {
	tokens <- struct{}{}
	defer func() { <-tokens }()
	l := &tlog{start: time.Now()}
	c := ship.NewConnectionHandler(&info{l}, &writer{l}, ship.ShipRoleServer, "local", "remote", "")
	c.Run()
	c.HandleIncomingWebsocketMessage([]byte{0, 0})
	res := result{ID: s.ID, Ops: s.Ops}
	if st := c.VerifSnapshot().State; st != model.SmeHelloStatePendingListen {
		res.Diverg = fmt.Sprintf("setup: state %d instead of pending-listen", st)
		return res
	}
	t0 := l.add("StopStart", 0, 0)
	_ = t0
	c.VerifStopTimer()
	l.add("StopEnd", 0, 0)
	sleepReleased(60 * time.Millisecond) // everything the setup armed is stopped well before the script starts
	armedReal := false                   // a script timer is armed and will legitimately expire during the final wait
	for i, o := range s.Ops {
		armedReal = o.Op == "Arm" || o.Op == "ArmPar"
		if o.Gap == "soon" {
			time.Sleep(soon)
		}
		switch o.Op {
		case "Arm":
			d := shortMs
			if o.Dur == "long" {
				d = longMs
			}
			ts := l.add("ArmStart", 0, d)
			c.VerifArmTimer(0, time.Duration(d)*time.Millisecond)
			l.add("ArmEnd", ts, d)
		case "ArmPar":
			// two goroutines arm at the same time: a short timer of type 0 and a long one of type 1; the timer type the
			// connection shows afterwards tells which of them was published last - that one is the armed timer
			ts1 := l.add("ArmStart", 0, shortMs)
			ts2 := l.add("ArmStart", 0, longMs)
			start := make(chan struct{})
			var wg sync.WaitGroup
			wg.Add(2)
			go func() { defer wg.Done(); <-start; c.VerifArmTimer(0, shortMs*time.Millisecond) }()
			go func() { defer wg.Done(); <-start; c.VerifArmTimer(1, longMs*time.Millisecond) }()
			close(start)
			wg.Wait()
			if c.VerifSnapshot().TimerType == 1 {
				l.add("ArmEnd", ts1, shortMs)
				l.add("ArmEnd", ts2, longMs)
			} else {
				l.add("ArmEnd", ts2, longMs)
				l.add("ArmEnd", ts1, shortMs)
			}
		case "Stop":
			// every other script: other goroutines read the timer's state (under the timer's lock) while it is stopped -
			// the stop must take effect however busy that lock is
			var quit chan struct{}
			var wg sync.WaitGroup
			if s.ID%2 == 1 && runtime.GOMAXPROCS(0) >= 4 {
				quit = make(chan struct{})
				for g := 0; g < 3; g++ {
					wg.Add(1)
					go func() {
						defer wg.Done()
						for {
							select {
							case <-quit:
								return
							default:
								_ = c.VerifTimerToken()
								runtime.Gosched()
							}
						}
					}()
				}
				time.Sleep(200 * time.Microsecond)
			}
			l.add("StopStart", 0, 0)
			c.VerifStopTimer()
			l.add("StopEnd", 0, 0)
			if quit != nil {
				close(quit)
				wg.Wait()
			}
		case "Expire":
			d := shortMs
			if o.Dur == "long" || o.Dur == "par" {
				d = longMs
			}
			sleepReleased(time.Duration(d+60) * time.Millisecond)
		}
		l.mu.Lock()
		f := l.fires
		l.mu.Unlock()
		if f != o.Fires && res.Diverg == "" && o.Op == "Expire" {
			res.Diverg = fmt.Sprintf("op %d %s: %d timeouts delivered, the specification allows %d", i, o.Op, f, o.Fires)
		}
	}
	// let every timer that should not fire have its chance
	sleepReleased((longMs + 150) * time.Millisecond)
	l.add("End", 0, 0)
	l.mu.Lock()
	l.ended = true
	res.Events = append([]event{}, l.ev...)
	f := l.fires
	l.mu.Unlock()
	want := 0
	if len(s.Ops) > 0 {
		want = s.Ops[len(s.Ops)-1].Fires
	}
	if armedReal {
		want++
	}
	if f != want && res.Diverg == "" {
		res.Diverg = fmt.Sprintf("end: %d timeouts delivered, the specification allows %d", f, want)
	}
	c.VerifStopTimer()
	c.CloseConnection(false, 0, "")
	return res
}

func main() {
	in := flag.String("scripts", "", "ndjson scripts")
	obs := flag.String("obs", "", "ndjson observations")
	sum := flag.String("summary", "", "summary json")
	par := flag.Int("par", 4096, "scripts in flight")
	flag.Parse()
	var scripts []*script
	if err := vh.ReadLines(*in, func(b []byte) error {
		s := &script{}
		if err := json.Unmarshal(b, s); err != nil {
			return err
		}
		scripts = append(scripts, s)
		return nil
	}); err != nil {
		fmt.Fprintln(os.Stderr, err)
		os.Exit(2)
	}
	if len(scripts) == 0 {
		fmt.Fprintln(os.Stderr, errors.New("no scripts"))
		os.Exit(2)
	}
	tokens = make(chan struct{}, vh.EnvInt("VERIF_TOKENS", 8))
	out, err := vh.NewWriter(*obs)
	if err != nil {
		fmt.Fprintln(os.Stderr, err)
		os.Exit(2)
	}
	var mu sync.Mutex
	div := 0
	var samples []string
	fires := 0
	t0 := time.Now()
	vh.Pool(len(scripts), *par, func(i int) {
		r := runScript(scripts[i])
		out.Write(r)
		mu.Lock()
		for _, e := range r.Events {
			if e.K == "Fire" {
				fires++
			}
		}
		if r.Diverg != "" {
			div++
			if len(samples) < 20 {
				samples = append(samples, fmt.Sprintf("script %d: %s", r.ID, r.Diverg))
			}
		}
		mu.Unlock()
	})
	out.Close()
	b, _ := json.MarshalIndent(map[string]interface{}{"scripts": len(scripts), "divergences": div, "divergence_samples": samples,
		"timeouts_delivered": fires, "wall_s": time.Since(t0).Seconds()}, "", " ")
	_ = os.WriteFile(*sum, b, 0o644)
	fmt.Printf("timer: %d scripts, %d timeouts delivered, %d diverge from the specification, %.1fs\n", len(scripts), fires, div, time.Since(t0).Seconds())
}
