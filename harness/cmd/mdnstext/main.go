// Command mdnstext evaluates the rows of spec/MdnsText.tla on the real mDNS manager (C16): the configured strings are
// concretised, the manager announces (a stand-in provider captures the TXT record), the library's own TXT parser and a
// second manager's entry processing read the record back, and the QR-code text is parsed with the SHIP;KEY:VALUE;..ENDSHIP;
// grammar. Everything the real code produced is abstracted back to atoms for the TLC monitor pass (spec/MonText.tla).
package main

import (
	"encoding/json"
	"errors"
	"flag"
	"fmt"
	"net"
	"os"
	"strings"
	"unicode/utf8"

	"github.com/enbility/ship-go/api"
	"github.com/enbility/ship-go/mdns"

	"verifharness/vh"
)

const (
	ski1 = "0123456789abcdef0123456789abcdef01234567"
	ski2 = "ffff456789abcdef0123456789abcdef0123ffff"
)

var atomOf = map[rune]string{'x': "a", 'é': "e2", '€': "e3", '😀': "e4", '=': "eq", ';': "semi", ':': "colon", '%': "pct", ' ': "sp"}
var runeOf = map[string]string{"a": "x", "e2": "é", "e3": "€", "e4": "😀", "eq": "=", "semi": ";", "colon": ":", "pct": "%", "sp": " "}

type rowT struct {
	Field string   `json:"field"`
	K     int      `json:"k"`
	Tail  []string `json:"tail"`
	Cats  string   `json:"cats"`
	Auto  bool     `json:"auto"`
	ID    int      `json:"id"`
}
type absStr struct {
	Valid bool     `json:"valid"`
	S     []string `json:"s"`
}
type entryT struct {
	Present  bool              `json:"present"`
	Fields   map[string]absStr `json:"fields"`
	Ski      string            `json:"ski"`
	Path     string            `json:"path"`
	Register bool              `json:"register"`
	Cats     []int             `json:"cats"`
}
type qrT struct {
	Ok     bool              `json:"ok"`
	Ski    string            `json:"ski"`
	Fields map[string]absStr `json:"fields"`
}
type expT struct {
	Ski      string `json:"ski"`
	Path     string `json:"path"`
	Register bool   `json:"register"`
	Cats     []int  `json:"cats"`
}
type obsT struct {
	ID        int               `json:"id"`
	Row       rowT              `json:"row"`
	Input     []string          `json:"input"`
	Announced map[string]absStr `json:"announced"`
	Entry     entryT            `json:"entry"`
	Qr        qrT               `json:"qr"`
	Expect    expT              `json:"expect"`
	Txt       []string          `json:"txt"`
	QrText    string            `json:"qrText"`
}

func abstract(s string) absStr {
	if !utf8.ValidString(s) {
		return absStr{Valid: false, S: []string{}}
	}
	out := []string{}
	for _, r := range s {
		if a, ok := atomOf[r]; ok {
			out = append(out, a)
		} else {
			out = append(out, "?")
		}
	}
	return absStr{Valid: true, S: out}
}

type provider struct {
	txt   []string
	fail  bool     // refuse the next announcements
	calls []string // how the Announce calls ended
	pub   bool     // something is published
}

func (p *provider) Start(bool, api.MdnsResolveCB) bool { return true }
func (p *provider) Shutdown()                          {}
func (p *provider) Announce(_ string, _ int, txt []string) error {
	if p.fail {
		p.calls = append(p.calls, "fail")
		return errors.New("provider refuses the announcement")
	}
	p.calls = append(p.calls, "ok")
	p.txt = append([]string{}, txt...)
	p.pub = true
	return nil
}
func (p *provider) Unannounce() { p.pub = false }

// ---------------------------------------------------------------- operation sequences (spec/MdnsAnnounce.tla)

type annOp struct {
	Op string `json:"op"`
	Ok bool   `json:"ok"`
	B  bool   `json:"b"`
}
type annStep struct {
	Op    annOp    `json:"op"`
	Pub   string   `json:"pub"`   // what a ship-go browser reads from the current publication: none / T / F (Register)
	Calls []string `json:"calls"` // provider Announce calls of this step
}
type annObs struct {
	ID    int       `json:"id"`
	Steps []annStep `json:"steps"`
}

func runSeq(id int, ops []annOp) annObs {
	m := mdns.NewMDNS(ski1, "Brand", "Model", "Type", "Serial", []api.DeviceCategoryType{2}, "Identifier", "service", 4711, nil, mdns.MdnsProviderSelectionAll)
	p := &provider{fail: true} // Start announces by itself: not part of the sequence
	_ = m.VerifStartWithProvider(nil, p)
	p.fail, p.calls = false, nil
	o := annObs{ID: id, Steps: []annStep{}}
	for _, op := range ops {
		p.calls = []string{}
		p.fail = !op.Ok
		switch op.Op {
		case "Announce":
			_ = m.AnnounceMdnsEntry()
		case "Unannounce":
			m.UnannounceMdnsEntry()
		case "SetAuto":
			m.SetAutoAccept(op.B)
		}
		st := annStep{Op: op, Pub: "none", Calls: p.calls}
		if p.pub {
			// read the publication back with the library's own parser and entry processing
			m2 := mdns.NewMDNS(ski2, "b", "m", "t", "s", nil, "other", "other", 4712, nil, mdns.MdnsProviderSelectionAll)
			_ = m2.VerifStartWithProvider(nil, &provider{})
			m2.VerifResolveCB()(mdns.VerifParseTxt(p.txt), "service", "host.local.", []net.IP{net.ParseIP("192.168.1.10")}, 4711, false)
			st.Pub = "unreadable"
			for _, e := range m2.VerifEntries() {
				st.Pub = vh.B(e.Register)
			}
		}
		o.Steps = append(o.Steps, st)
	}
	return o
}

var qrKeys = map[string]bool{"SKI": true, "ID": true, "BRAND": true, "TYPE": true, "MODEL": true, "SERIAL": true, "CAT": true}

func parseQR(s string) qrT {
	q := qrT{Fields: map[string]absStr{}}
	if !strings.HasPrefix(s, "SHIP;") || !strings.HasSuffix(s, "ENDSHIP;") {
		return q
	}
	body := strings.TrimSuffix(strings.TrimPrefix(s, "SHIP;"), "ENDSHIP;")
	if body != "" && !strings.HasSuffix(body, ";") {
		return q
	}
	toks := []string{}
	if body != "" {
		toks = strings.Split(strings.TrimSuffix(body, ";"), ";")
	}
	for i, t := range toks {
		j := strings.Index(t, ":")
		if j <= 0 {
			return q
		}
		k, v := t[:j], t[j+1:]
		if !qrKeys[k] {
			return q
		}
		if _, dup := q.Fields[k]; dup || (k == "SKI" && q.Ski != "") {
			return q
		}
		if (i == 0) != (k == "SKI") {
			return q
		}
		if k == "SKI" {
			q.Ski = v
		} else {
			q.Fields[k] = abstract(v)
		}
	}
	q.Ok = q.Ski != ""
	return q
}

func eval(r rowT) obsT {
	o := obsT{ID: r.ID, Row: r, Announced: map[string]absStr{}}
	val := strings.Repeat("x", r.K)
	for _, a := range r.Tail {
		val += runeOf[a]
	}
	o.Input = abstract(val).S
	cfg := map[string]string{"brand": "Brand", "model": "Model", "type": "Type", "serial": "Serial", "id": "Identifier"}
	cfg[r.Field] = val
	var cats []api.DeviceCategoryType
	o.Expect = expT{Ski: ski1, Path: "/ship/", Register: r.Auto, Cats: []int{}}
	switch r.Cats {
	case "empty":
		cats = []api.DeviceCategoryType{}
	case "one":
		cats = []api.DeviceCategoryType{2}
		o.Expect.Cats = []int{2}
	case "two":
		cats = []api.DeviceCategoryType{1, 7}
		o.Expect.Cats = []int{1, 7}
	}
	m := mdns.NewMDNS(ski1, cfg["brand"], cfg["model"], cfg["type"], cfg["serial"], cats, cfg["id"], "service", 4711, nil, mdns.MdnsProviderSelectionAll)
	m.SetAutoAccept(r.Auto)
	p := &provider{}
	_ = m.VerifStartWithProvider(nil, p)
	o.Txt = p.txt
	for _, item := range p.txt {
		for f, key := range map[string]string{"brand": "brand", "model": "model", "type": "type", "serial": "serial", "id": "id"} {
			if strings.HasPrefix(item, key+"=") {
				o.Announced[f] = abstract(item[len(key)+1:])
			}
		}
	}
	for _, f := range []string{"brand", "model", "type", "serial", "id"} {
		if _, ok := o.Announced[f]; !ok {
			o.Announced[f] = absStr{Valid: true, S: []string{}}
		}
	}
	// read back with the library's own parser and entry processing
	m2 := mdns.NewMDNS(ski2, "b", "m", "t", "s", nil, "other", "other", 4712, nil, mdns.MdnsProviderSelectionAll)
	_ = m2.VerifStartWithProvider(nil, &provider{})
	m2.VerifResolveCB()(mdns.VerifParseTxt(p.txt), "service", "host.local.", []net.IP{net.ParseIP("192.168.1.10")}, 4711, false)
	o.Entry = entryT{Fields: map[string]absStr{}, Cats: []int{}}
	for _, e := range m2.VerifEntries() {
		o.Entry.Present = true
		o.Entry.Ski, o.Entry.Path, o.Entry.Register = e.Ski, e.Path, e.Register
		o.Entry.Fields["brand"], o.Entry.Fields["model"], o.Entry.Fields["type"] = abstract(e.Brand), abstract(e.Model), abstract(e.Type)
		o.Entry.Fields["serial"], o.Entry.Fields["id"] = abstract(e.Serial), abstract(e.Identifier)
		for _, c := range e.Categories {
			o.Entry.Cats = append(o.Entry.Cats, int(c))
		}
	}
	o.QrText = m.QRCodeText()
	o.Qr = parseQR(o.QrText)
	return o
}

func main() {
	in := flag.String("rows", "", "ndjson rows")
	seqs := flag.String("seqs", "", "ndjson operation sequences (MdnsAnnounce)")
	obs := flag.String("obs", "", "ndjson observations")
	flag.Parse()
	if *seqs != "" {
		out, err := vh.NewWriter(*obs)
		if err != nil {
			fmt.Fprintln(os.Stderr, err)
			os.Exit(2)
		}
		n := 0
		if err := vh.ReadLines(*seqs, func(b []byte) error {
			var t struct {
				ID  int     `json:"id"`
				Ops []annOp `json:"ops"`
			}
			if err := json.Unmarshal(b, &t); err != nil {
				return err
			}
			out.Write(runSeq(t.ID, t.Ops))
			n++
			return nil
		}); err != nil || n == 0 {
			fmt.Fprintln(os.Stderr, "no sequences:", err)
			os.Exit(2)
		}
		out.Close()
		fmt.Printf("mdnstext: %d operation sequences\n", n)
		return
	}
	var rows []rowT
	if err := vh.ReadLines(*in, func(b []byte) error {
		var r rowT
		if err := json.Unmarshal(b, &r); err != nil {
			return err
		}
		rows = append(rows, r)
		return nil
	}); err != nil || len(rows) == 0 {
		fmt.Fprintln(os.Stderr, "no rows:", err)
		os.Exit(2)
	}
	out, err := vh.NewWriter(*obs)
	if err != nil {
		fmt.Fprintln(os.Stderr, err)
		os.Exit(2)
	}
	for _, r := range rows {
		out.Write(eval(r))
	}
	out.Close()
	fmt.Printf("mdnstext: %d rows\n", len(rows))
}
