// Command mdnsmgr drives a real mdns.MdnsManager (C17) with TLC-generated sequences of resolver events through the
// callback the manager hands to its provider, reads the manager's table after every event, and plays the hub: every
// report call is processed after a scripted delay (a report goroutine that was scheduled late), so that the order in
// which reports are processed follows the delivery order of the TLC behaviour wherever the library allows it.
package main

import (
	"encoding/json"
	"flag"
	"fmt"
	"net"
	"os"
	"sort"
	"strings"
	"sync"
	"time"

	"github.com/enbility/ship-go/api"
	"github.com/enbility/ship-go/mdns"

	"verifharness/vh"
)

const ownSki = "ffff456789abcdef0123456789abcdef0123ffff"

var skiOf = map[string]string{"s1": "0123456789abcdef0123456789abcdef01234567", "s2": "89abcdef0123456789abcdef0123456789abcdef"}
var nameOf = map[string]string{}
var ipOf = map[string]net.IP{"v4a": net.ParseIP("192.168.1.10"), "v4b": net.ParseIP("10.0.0.7"), "v6g": net.ParseIP("2001:db8::1"), "v6ll": net.ParseIP("fe80::1")}
var addrName = map[string]string{}

func init() {
	for k, v := range skiOf {
		nameOf[v] = k
	}
	for k, v := range ipOf {
		addrName[v.String()] = k
	}
}

type evT struct {
	S      string   `json:"s"`
	Txt    string   `json:"txt"`
	Addrs  []string `json:"addrs"`
	Remove bool     `json:"remove"`
}
type opT struct {
	Op     string `json:"op"`
	E      evT    `json:"e"`
	Report bool   `json:"report"`
	Ver    int    `json:"ver"`
}
type scriptT struct {
	ID  int   `json:"id"`
	Ops []opT `json:"ops"`
}

type table map[string][]string

type obsT struct {
	ID        int     `json:"id"`
	Events    []evObs `json:"events"`
	Processed []table `json:"processed"` // snapshots in the order the "hub" processed them
	Final     table   `json:"final"`
	Diverg    string  `json:"diverg,omitempty"`
}
type evObs struct {
	E     evT   `json:"e"`
	Table table `json:"table"` // the manager's table right after the event
}

func elements(s, class string, pick int) map[string]string {
	el := map[string]string{"txtvers": "1", "id": "id-" + s, "path": "/ship/", "ski": skiOf[s], "register": []string{"true", "false"}[pick%2],
		"brand": "b", "model": "m", "type": "t"}
	switch class {
	case "validBadCat":
		el["cat"] = "1,x,,99999999999999999999"
	case "noVers":
		delete(el, "txtvers")
	case "vers2":
		el["txtvers"] = []string{"2", "", "01", "1 "}[pick%4]
	case "noId":
		delete(el, "id")
	case "noPath":
		delete(el, "path")
	case "noSki":
		delete(el, "ski")
	case "ownSki":
		el["ski"] = ownSki
	case "regNotBool":
		el["register"] = []string{"yes", "", "TRUE", "1"}[pick%4]
	}
	return el
}

func toTable(m map[string]*api.MdnsEntry) table {
	t := table{}
	for ski, e := range m {
		n, ok := nameOf[ski]
		if !ok {
			n = "?" + ski
		}
		as := []string{}
		for _, a := range e.Addresses {
			x, ok := addrName[a.String()]
			if !ok {
				x = "?" + a.String()
			}
			as = append(as, x)
		}
		sort.Strings(as)
		t[n] = as
	}
	return t
}

type provider struct{}

func (p *provider) Start(bool, api.MdnsResolveCB) bool   { return true }
func (p *provider) Shutdown()                            {}
func (p *provider) Announce(string, int, []string) error { return nil }
func (p *provider) Unannounce()                          {}

// hubStandIn processes a report after the delay scripted for the n-th arriving call
type hubStandIn struct {
	mu        sync.Mutex
	arrivals  int
	inFlight  int
	delays    []time.Duration
	processed []table
}

func (h *hubStandIn) ReportMdnsEntries(entries map[string]*api.MdnsEntry, newEntries bool) {
	h.mu.Lock()
	idx := h.arrivals
	h.arrivals++
	h.inFlight++
	d := time.Duration(0)
	if idx < len(h.delays) {
		d = h.delays[idx]
	}
	h.mu.Unlock()
	time.Sleep(d)
	h.mu.Lock()
	h.processed = append(h.processed, toTable(entries))
	h.inFlight--
	h.mu.Unlock()
}

func runScript(s *scriptT, seed int) obsT {
	o := obsT{ID: s.ID, Processed: []table{}}
	// delivery order of the behaviour -> delay of the k-th spawned report
	pos := map[int]int{}
	n := 0
	for _, op := range s.Ops {
		if op.Op == "Deliver" {
			pos[op.Ver] = n
			n++
		}
	}
	hubS := &hubStandIn{}
	for v := 1; v <= n; v++ {
		hubS.delays = append(hubS.delays, time.Duration(5+pos[v]*25)*time.Millisecond)
	}
	m := mdns.NewMDNS(ownSki, "brand", "model", "type", "serial", []api.DeviceCategoryType{1}, "shipid", "service", 4711, nil, mdns.MdnsProviderSelectionAll)
	if err := m.VerifStartWithProvider(hubS, &provider{}); err != nil {
		o.Diverg = "start: " + err.Error()
		return o
	}
	cb := m.VerifResolveCB()
	i := 0
	for _, op := range s.Ops {
		if op.Op != "Resolve" {
			continue
		}
		e := op.E
		var ips []net.IP
		for _, a := range e.Addrs {
			ips = append(ips, ipOf[a])
		}
		port := 4712
		if e.Remove {
			ips, port = nil, -1
		}
		before := hubS.arrivalsNow()
		cb(elements(e.S, e.Txt, seed+s.ID+i), "name-"+e.S, "host-"+e.S+".local.", ips, port, e.Remove)
		if e.Addrs == nil {
			e.Addrs = []string{}
		}
		o.Events = append(o.Events, evObs{E: e, Table: toTable(m.VerifEntries())})
		if op.Report {
			// let the report goroutine arrive (it may be held back by the library if reports are serialised)
			for t := 0; t < 20 && hubS.arrivalsNow() == before; t++ {
				time.Sleep(time.Millisecond)
			}
		}
		i++
	}
	// quiescence: nothing in flight and nothing new for a while
	for t := 0; t < 400; t++ {
		time.Sleep(10 * time.Millisecond)
		hubS.mu.Lock()
		idle := hubS.inFlight == 0
		hubS.mu.Unlock()
		if idle && t > 8 {
			break
		}
	}
	time.Sleep(30 * time.Millisecond)
	hubS.mu.Lock()
	o.Processed = append([]table{}, hubS.processed...)
	hubS.mu.Unlock()
	o.Final = toTable(m.VerifEntries())
	return o
}

func (h *hubStandIn) arrivalsNow() int { h.mu.Lock(); defer h.mu.Unlock(); return h.arrivals }

// fuzzResolver feeds the manager's resolver callback with awkward inputs (C08): nil and empty TXT maps, missing / empty /
// oversized / binary values, nil and odd address lists, odd ports, removes of unknown services. Every call runs under
// recover and a deadline; the result is the list of inputs that made the library panic or hang.
func fuzzResolver(seed, rounds int) []string {
	var bad []string
	m := mdns.NewMDNS(ownSki, "brand", "model", "type", "serial", []api.DeviceCategoryType{1}, "shipid", "service", 4711, nil, mdns.MdnsProviderSelectionAll)
	hubS := &hubStandIn{}
	if err := m.VerifStartWithProvider(hubS, &provider{}); err != nil {
		return []string{"start: " + err.Error()}
	}
	cb := m.VerifResolveCB()
	vals := []string{"", "1", "2", "true", "false", "TRUE", "x", "/ship/", skiOf["s1"], ownSki, string([]byte{0xff, 0xfe}), "a=b", strings.Repeat("z", 70000), "1,2,x,,-1,99999999999999999999", " ", "\x00"}
	keys := []string{"txtvers", "id", "path", "ski", "register", "brand", "model", "type", "serial", "cat", "", "unknown"}
	addrSets := [][]net.IP{nil, {}, {nil}, {net.IP{}}, {net.ParseIP("0.0.0.0")}, {net.ParseIP("fe80::1")}, {net.ParseIP("::")}, {net.IP{1, 2, 3}},
		{net.ParseIP("192.168.1.10"), net.ParseIP("192.168.1.10")}, {net.ParseIP("2001:db8::1"), nil, net.ParseIP("10.0.0.7")}}
	ports := []int{-1, 0, 1, 65535, 65536, 1 << 30}
	x := uint32(seed*2654435761 + 12345)
	next := func(n int) int { x = x*1664525 + 1013904223; return int(x>>8) % n }
	for r := 0; r < rounds; r++ {
		var el map[string]string
		switch next(6) {
		case 0:
			el = nil
		case 1:
			el = map[string]string{}
		default:
			el = map[string]string{"txtvers": "1", "id": "id", "path": "/ship/", "ski": skiOf["s1"], "register": "true"}
			for k := 0; k < next(5); k++ {
				key := keys[next(len(keys))]
				if next(4) == 0 {
					delete(el, key)
				} else {
					el[key] = vals[next(len(vals))]
				}
			}
		}
		addrs := addrSets[next(len(addrSets))]
		port := ports[next(len(ports))]
		remove := next(3) == 0
		name := []string{"", "n", strings.Repeat("n", 300)}[next(3)]
		desc := fmt.Sprintf("elements=%q name=%q addrs=%v port=%d remove=%v", el, name, addrs, port, remove)
		cr := vh.Call(3*time.Second, func() { cb(el, name, "host", addrs, port, remove) })
		if cr.Panicked {
			bad = append(bad, "panic: "+desc)
		} else if cr.Hung {
			bad = append(bad, "hang: "+desc)
			break
		}
		if next(10) == 0 {
			cr := vh.Call(3*time.Second, func() { m.RequestMdnsEntries(); _ = m.VerifEntries() })
			if cr.Panicked || cr.Hung {
				bad = append(bad, "panic/hang in RequestMdnsEntries after: "+desc)
			}
		}
	}
	// TXT parser on raw records
	for _, txt := range [][]string{nil, {}, {""}, {"="}, {"=="}, {"a"}, {"=b"}, {"a="}, {string([]byte{0xff}) + "=" + string([]byte{0x00})}, {strings.Repeat("k", 70000) + "=v"}} {
		t := txt
		cr := vh.Call(3*time.Second, func() { _ = mdns.VerifParseTxt(t) })
		if cr.Panicked || cr.Hung {
			bad = append(bad, fmt.Sprintf("panic/hang in parseTxt(%q)", t))
		}
	}
	return bad
}

func main() {
	fuzz := flag.Int("fuzz", 0, "C08: number of awkward resolver inputs to feed instead of running scripts")
	fuzzOut := flag.String("fuzzout", "", "C08: json file for the inputs that made the library panic or hang")
	in := flag.String("scripts", "", "ndjson scripts")
	obs := flag.String("obs", "", "ndjson observations")
	sum := flag.String("summary", "", "summary json")
	par := flag.Int("par", 256, "scripts in flight")
	flag.Parse()
	seed := vh.EnvInt("VERIF_SEED", 1)
	if *fuzz > 0 {
		bad := fuzzResolver(seed, *fuzz)
		if bad == nil {
			bad = []string{}
		}
		b, _ := json.Marshal(map[string]interface{}{"inputs": *fuzz, "bad": bad})
		_ = os.WriteFile(*fuzzOut, b, 0o644)
		fmt.Printf("mdnsmgr: %d awkward resolver inputs, %d made the library panic or hang\n", *fuzz, len(bad))
		return
	}
	var scripts []*scriptT
	if err := vh.ReadLines(*in, func(b []byte) error {
		s := &scriptT{}
		if err := json.Unmarshal(b, s); err != nil {
			return err
		}
		scripts = append(scripts, s)
		return nil
	}); err != nil || len(scripts) == 0 {
		fmt.Fprintln(os.Stderr, "no scripts:", err)
		os.Exit(2)
	}
	out, err := vh.NewWriter(*obs)
	if err != nil {
		fmt.Fprintln(os.Stderr, err)
		os.Exit(2)
	}
	t0 := time.Now()
	vh.Pool(len(scripts), *par, func(i int) { out.Write(runScript(scripts[i], seed)) })
	out.Close()
	b, _ := json.MarshalIndent(map[string]interface{}{"scripts": len(scripts), "wall_s": time.Since(t0).Seconds()}, "", " ")
	_ = os.WriteFile(*sum, b, 0o644)
	fmt.Printf("mdnsmgr: %d scripts, %.1fs\n", len(scripts), time.Since(t0).Seconds())
}
