// Command mdnsmgr drives a real mdns.MdnsManager (C17) with TLC-generated sequences of resolver events through the
// callback the manager hands to its provider, reads the manager's table after every event, and plays the hub: every
// report call is processed after a scripted delay (a report goroutine that was scheduled late), so that the order in
// which reports are processed follows the delivery order of the TLC behaviour wherever the library allows it.
package main

import (
	"encoding/json"
	"flag"
	"fmt"
	"net"
	"os"
	"runtime"
	"sort"
	"strings"
	"sync"
	"time"

	"github.com/enbility/ship-go/api"
	"github.com/enbility/ship-go/mdns"

	"verifharness/vh"
)

const ownSki = "ffff456789abcdef0123456789abcdef0123ffff"

var skiOf = map[string]string{"s1": "0123456789abcdef0123456789abcdef01234567", "s2": "89abcdef0123456789abcdef0123456789abcdef"}
var nameOf = map[string]string{}
var ipOf = map[string]net.IP{"v4a": net.ParseIP("192.168.1.10"), "v4b": net.ParseIP("10.0.0.7"), "v6g": net.ParseIP("2001:db8::1"), "v6ll": net.ParseIP("fe80::1")}
var addrName = map[string]string{}

func init() {
	for k, v := range skiOf {
		nameOf[v] = k
	}
	for k, v := range ipOf {
		addrName[v.String()] = k
	}
}

type evT struct {
	S      string   `json:"s"`
	Txt    string   `json:"txt"`
	Addrs  []string `json:"addrs"`
	Remove bool     `json:"remove"`
	Rep    int      `json:"rep"` // the address list repeats every address Rep times
	Rev    bool     `json:"rev"` // the address list is in descending order
}
type opT struct {
	Op     string `json:"op"`
	E      evT    `json:"e"`
	Report bool   `json:"report"`
	Ver    int    `json:"ver"`
}
type scriptT struct {
	ID  int   `json:"id"`
	Ops []opT `json:"ops"`
	// Burst: the resolver events come back to back (no pause for a report goroutine to arrive) and the process runs on one
	// processor, where the Go scheduler runs the goroutine spawned LAST first: later snapshots get their turn before earlier ones
	Burst bool `json:"burst,omitempty"`
}

type table map[string][]string

type obsT struct {
	ID           int     `json:"id"`
	Events       []evObs `json:"events"`
	Processed    []table `json:"processed"` // snapshots in the order the "hub" processed them
	Final        table   `json:"final"`
	FinalDup     bool    `json:"finalDup"`
	ProcessedDup bool    `json:"processedDup"` // a report listed an address of a service twice
	Diverg       string  `json:"diverg,omitempty"`
}
type evObs struct {
	E     evT   `json:"e"`
	Table table `json:"table"` // the manager's table right after the event
	Dup   bool  `json:"dup"`   // that table lists an address of a service twice
}

func hasDup(m map[string]*api.MdnsEntry) bool {
	for _, e := range m {
		seen := map[string]bool{}
		for _, a := range e.Addresses {
			if seen[a.String()] {
				return true
			}
			seen[a.String()] = true
		}
	}
	return false
}

func elements(s, class string, pick int) map[string]string {
	el := map[string]string{"txtvers": "1", "id": "id-" + s, "path": "/ship/", "ski": skiOf[s], "register": []string{"true", "false"}[pick%2],
		"brand": "b", "model": "m", "type": "t"}
	switch class {
	case "validBadCat":
		el["cat"] = "1,x,,99999999999999999999"
	case "noVers":
		delete(el, "txtvers")
	case "vers2":
		el["txtvers"] = []string{"2", "", "01", "1 "}[pick%4]
	case "noId":
		delete(el, "id")
	case "noPath":
		delete(el, "path")
	case "noSki":
		delete(el, "ski")
	case "ownSki":
		el["ski"] = ownSki
	case "regNotBool":
		el["register"] = []string{"yes", "", "TRUE", "1"}[pick%4]
	}
	return el
}

func toTable(m map[string]*api.MdnsEntry) table {
	t := table{}
	for ski, e := range m {
		n, ok := nameOf[ski]
		if !ok {
			n = "?" + ski
		}
		as := []string{}
		for _, a := range e.Addresses {
			x, ok := addrName[a.String()]
			if !ok {
				x = "?" + a.String()
			}
			as = append(as, x)
		}
		sort.Strings(as)
		t[n] = as
	}
	return t
}

type provider struct{}

func (p *provider) Start(bool, api.MdnsResolveCB) bool   { return true }
func (p *provider) Shutdown()                            {}
func (p *provider) Announce(string, int, []string) error { return nil }
func (p *provider) Unannounce()                          {}

// hubStandIn processes a report after the delay scripted for the n-th arriving call
type hubStandIn struct {
	mu        sync.Mutex
	arrivals  int
	inFlight  int
	delays    []time.Duration
	processed []table
	dup       bool
}

func (h *hubStandIn) ReportMdnsEntries(entries map[string]*api.MdnsEntry, newEntries bool) {
	h.mu.Lock()
	idx := h.arrivals
	h.arrivals++
	h.inFlight++
	d := time.Duration(0)
	if idx < len(h.delays) {
		d = h.delays[idx]
	}
	h.mu.Unlock()
	time.Sleep(d)
	h.mu.Lock()
	h.processed = append(h.processed, toTable(entries))
	h.dup = h.dup || hasDup(entries)
	h.inFlight--
	h.mu.Unlock()
}

func runScript(s *scriptT, seed int) obsT {
	o := obsT{ID: s.ID, Processed: []table{}}
	// delivery order of the behaviour -> delay of the k-th spawned report
	pos := map[int]int{}
	n := 0
	for _, op := range s.Ops {
		if op.Op == "Deliver" {
			pos[op.Ver] = n
			n++
		}
	}
	hubS := &hubStandIn{}
	for v := 1; v <= n; v++ {
		hubS.delays = append(hubS.delays, time.Duration(5+pos[v]*25)*time.Millisecond)
	}
	m := mdns.NewMDNS(ownSki, "brand", "model", "type", "serial", []api.DeviceCategoryType{1}, "shipid", "service", 4711, nil, mdns.MdnsProviderSelectionAll)
	if err := m.VerifStartWithProvider(hubS, &provider{}); err != nil {
		o.Diverg = "start: " + err.Error()
		return o
	}
	cb := m.VerifResolveCB()
	i := 0
	for _, op := range s.Ops {
		if op.Op != "Resolve" {
			continue
		}
		e := op.E
		var ips []net.IP
		for rep := 0; rep < max(e.Rep, 1); rep++ {
			for k := range e.Addrs {
				if e.Rev {
					k = len(e.Addrs) - 1 - k
				}
				ips = append(ips, ipOf[e.Addrs[k]])
			}
		}
		port := 4712
		if e.Remove {
			ips, port = nil, -1
		}
		before := hubS.arrivalsNow()
		cb(elements(e.S, e.Txt, seed+s.ID+i), "name-"+e.S, "host-"+e.S+".local.", ips, port, e.Remove)
		if e.Addrs == nil {
			e.Addrs = []string{}
		}
		now := m.VerifEntries()
		o.Events = append(o.Events, evObs{E: e, Table: toTable(now), Dup: hasDup(now)})
		if op.Report && !(s.Burst && i > 0) {
			// let the report goroutine arrive (it may be held back by the library if reports are serialised)
			for t := 0; t < 20 && hubS.arrivalsNow() == before; t++ {
				time.Sleep(time.Millisecond)
			}
		}
		i++
	}
	// quiescence: nothing in flight and nothing new for a while
	for t := 0; t < 400; t++ {
		time.Sleep(10 * time.Millisecond)
		hubS.mu.Lock()
		idle := hubS.inFlight == 0
		hubS.mu.Unlock()
		if idle && t > 8 {
			break
		}
	}
	time.Sleep(30 * time.Millisecond)
	hubS.mu.Lock()
	o.Processed = append([]table{}, hubS.processed...)
	o.ProcessedDup = hubS.dup
	hubS.mu.Unlock()
	fin := m.VerifEntries()
	o.Final = toTable(fin)
	o.FinalDup = hasDup(fin)
	return o
}

func (h *hubStandIn) arrivalsNow() int { h.mu.Lock(); defer h.mu.Unlock(); return h.arrivals }

// ---------------------------------------------------------------- C08: awkward resolver inputs (table from MdnsBadGen.tla)

type badRow struct {
	ID     int    `json:"id"`
	Elems  string `json:"elems"` // nil | empty | map
	K1     string `json:"k1"`
	V1     int    `json:"v1"` // 0 = key absent, else index into badVals
	K2     string `json:"k2"`
	V2     int    `json:"v2"`
	Addr   int    `json:"addr"`
	Port   int    `json:"port"`
	Name   int    `json:"name"`
	Remove bool   `json:"remove"`
}

type badObs struct {
	ID        int    `json:"id"`
	Row       badRow `json:"row"`
	Outcome   string `json:"outcome"`   // ok | panic | hang
	GoodAfter bool   `json:"goodAfter"` // the valid record of another service delivered afterwards is in the table
	QueryOk   bool   `json:"queryOk"`   // RequestMdnsEntries and the table read return
	Detail    string `json:"detail,omitempty"`
}

var badVals = []string{"", "1", "2", "true", "false", "TRUE", "x", "/ship/", skiOf["s1"], ownSki, string([]byte{0xff, 0xfe}), "a=b",
	strings.Repeat("z", 70000), "1,2,x,,-1,99999999999999999999", " ", "\x00"}
var badAddrs = [][]net.IP{{net.ParseIP("192.168.1.10")}, nil, {}, {nil}, {net.IP{}}, {net.ParseIP("0.0.0.0")}, {net.ParseIP("fe80::1")}, {net.IP{1, 2, 3}},
	{net.ParseIP("192.168.1.10"), net.ParseIP("192.168.1.10")}, {net.ParseIP("2001:db8::1"), nil, net.ParseIP("10.0.0.7")}}
var badPorts = []int{4712, -1, 0, 65535, 65536, 1 << 30}
var badNames = []string{"n", "", strings.Repeat("n", 300)}

func pick[T any](xs []T, i int) T { return xs[(i-1+len(xs))%len(xs)] }

// runBad feeds every row of the table to the resolver callback of a real manager (a fresh one every 400 rows, so that
// rows also meet the table state earlier rows left behind). Every call runs under recover and a deadline.
func runBad(rows []badRow, out *vh.Writer) (bad int) {
	var m *mdns.MdnsManager
	var cb api.MdnsResolveCB
	fresh := func() bool {
		m = mdns.NewMDNS(ownSki, "brand", "model", "type", "serial", []api.DeviceCategoryType{1}, "shipid", "service", 4711, nil, mdns.MdnsProviderSelectionAll)
		if err := m.VerifStartWithProvider(&hubStandIn{}, &provider{}); err != nil {
			return false
		}
		cb = m.VerifResolveCB()
		return true
	}
	for i, r := range rows {
		if i%400 == 0 && !fresh() {
			fmt.Fprintln(os.Stderr, "manager does not start")
			os.Exit(2)
		}
		var el map[string]string
		switch r.Elems {
		case "nil":
		case "empty":
			el = map[string]string{}
		default:
			el = map[string]string{"txtvers": "1", "id": "id", "path": "/ship/", "ski": skiOf["s1"], "register": "true", "brand": "b", "model": "m", "type": "t"}
			for _, kv := range []struct {
				k string
				v int
			}{{r.K1, r.V1}, {r.K2, r.V2}} {
				if kv.k == "-" {
					continue
				}
				if kv.v == 0 {
					delete(el, kv.k)
				} else {
					el[kv.k] = pick(badVals, kv.v)
				}
			}
		}
		o := badObs{ID: r.ID, Row: r, Outcome: "ok"}
		cr := vh.Call(3*time.Second, func() {
			cb(el, pick(badNames, r.Name), "host", pick(badAddrs, r.Addr), pick(badPorts, r.Port), r.Remove)
		})
		switch {
		case cr.Panicked:
			o.Outcome, o.Detail = "panic", firstLine(cr.PanicMsg)
		case cr.Hung:
			o.Outcome = "hang"
		}
		if o.Outcome == "ok" {
			// at most that record is ignored: the valid record of another service is still taken up, the table can be read
			good := map[string]string{"txtvers": "1", "id": "id-s2", "path": "/ship/", "ski": skiOf["s2"], "register": "false"}
			c2 := vh.Call(3*time.Second, func() {
				cb(good, "name-s2", "host-s2", []net.IP{net.ParseIP("10.0.0.7")}, 4712, false)
				_, o.GoodAfter = m.VerifEntries()[skiOf["s2"]]
				cb(good, "name-s2", "host-s2", nil, -1, true)
			})
			c3 := vh.Call(3*time.Second, func() { m.RequestMdnsEntries(); _ = m.VerifEntries() })
			o.GoodAfter = o.GoodAfter && !c2.Panicked && !c2.Hung
			o.QueryOk = !c3.Panicked && !c3.Hung
		}
		if o.Outcome != "ok" || !o.GoodAfter || !o.QueryOk {
			bad++
		}
		out.Write(o)
		if o.Outcome == "hang" && !fresh() {
			os.Exit(2)
		}
	}
	// the TXT parser on raw records (zeroconf route)
	for _, txt := range [][]string{nil, {}, {""}, {"="}, {"=="}, {"a"}, {"=b"}, {"a="}, {string([]byte{0xff}) + "=" + string([]byte{0x00})}, {strings.Repeat("k", 70000) + "=v"}} {
		t := txt
		cr := vh.Call(3*time.Second, func() { _ = mdns.VerifParseTxt(t) })
		if cr.Panicked || cr.Hung {
			bad++
			out.Write(badObs{ID: -1, Outcome: map[bool]string{true: "panic", false: "hang"}[cr.Panicked], Detail: fmt.Sprintf("parseTxt(%q)", t)})
		}
	}
	return bad
}

func main() {
	badIn := flag.String("bad", "", "C08: ndjson table of awkward resolver inputs (MdnsBadGen.tla) to feed instead of running scripts")
	in := flag.String("scripts", "", "ndjson scripts")
	obs := flag.String("obs", "", "ndjson observations")
	sum := flag.String("summary", "", "summary json")
	par := flag.Int("par", 256, "scripts in flight")
	flag.Parse()
	seed := vh.EnvInt("VERIF_SEED", 1)
	if *badIn != "" {
		var rows []badRow
		if err := vh.ReadLines(*badIn, func(b []byte) error {
			var r badRow
			if err := json.Unmarshal(b, &r); err != nil {
				return err
			}
			rows = append(rows, r)
			return nil
		}); err != nil || len(rows) == 0 {
			fmt.Fprintln(os.Stderr, "no rows:", err)
			os.Exit(2)
		}
		out, err := vh.NewWriter(*obs)
		if err != nil {
			fmt.Fprintln(os.Stderr, err)
			os.Exit(2)
		}
		t0 := time.Now()
		bad := runBad(rows, out)
		out.Close()
		fmt.Printf("mdnsmgr: %d awkward resolver inputs, %d with a bad outcome, %.1fs\n", len(rows), bad, time.Since(t0).Seconds())
		return
	}
	var scripts []*scriptT
	if err := vh.ReadLines(*in, func(b []byte) error {
		s := &scriptT{}
		if err := json.Unmarshal(b, s); err != nil {
			return err
		}
		scripts = append(scripts, s)
		return nil
	}); err != nil || len(scripts) == 0 {
		fmt.Fprintln(os.Stderr, "no scripts:", err)
		os.Exit(2)
	}
	out, err := vh.NewWriter(*obs)
	if err != nil {
		fmt.Fprintln(os.Stderr, err)
		os.Exit(2)
	}
	t0 := time.Now()
	if scripts[0].Burst {
		runtime.GOMAXPROCS(1)
		if *par > 8 {
			*par = 8
		}
	}
	vh.Pool(len(scripts), *par, func(i int) { out.Write(runScript(scripts[i], seed)) })
	out.Close()
	b, _ := json.MarshalIndent(map[string]interface{}{"scripts": len(scripts), "wall_s": time.Since(t0).Seconds()}, "", " ")
	_ = os.WriteFile(*sum, b, 0o644)
	fmt.Printf("mdnsmgr: %d scripts, %.1fs\n", len(scripts), time.Since(t0).Seconds())
}

func firstLine(s string) string {
	if i := strings.IndexByte(s, '\n'); i >= 0 {
		return s[:i]
	}
	return s
}
