// Command eebusjson evaluates the documents TLC enumerated from spec/EebusJsonM.tla on the real ship.JsonIntoEEBUSJson and
// ship.JsonFromEEBUSJson (C07): each abstract document is rendered to JSON text, transformed to the wire form and back,
// and both outputs are tokenised for the TLC monitor pass (spec/MonJson.tla).
package main

import (
	"encoding/json"
	"flag"
	"fmt"
	"os"
	"strings"
	"unicode/utf8"

	"github.com/enbility/ship-go/ship"

	"verifharness/vh"
)

// number literals: the abstract tokens "1" (a number) and "9" (a number beyond float64 / int64) are concretised by spellings that
// rotate with the document, so that every way of writing a number meets every document shape; the requirement is that the
// literal comes back character by character
var numLits = []string{"1", "1.0", "1e3", "-0", "0.10", "1E+2", "-12.50", "100000000000000000000"}
var bigLits = []string{"12345678901234567890.0123456789", "18446744073709551615", "-9223372036854775809", "1e400", "0.1000000000000000055511151231257827"}
var num, big = numLits[0], bigLits[0]

// string contents: the abstract character "x" of a string is concretised by a text that rotates with the document - as it
// is written in the JSON input, and the value it denotes. Strings are compared by VALUE (encoding/json may spell < as \u003c)
var strLits = [][2]string{{"x", "x"}, {"<", "<"}, {`\\u003c`, `\u003c`}, {"é", "é"}, {`\u00e9`, "é"}, {`\\`, `\`}, {`\n`, "\n"}, {`\/`, "/"},
	{"😀", "😀"}, {"&>", "&>"}, {`\t\r`, "\t\r"}, {"%s", "%s"}, {`\\u0026`, `\u0026`}, {"\u2028", "\u2028"}}
var strLit = strLits[0]

// member names: the abstract names "a" / "b" are written with a suffix that rotates with the document (as written in the JSON
// input, and the value it denotes) - control characters, DEL, a character beyond the basic plane: names are strings too
var keySufs = [][2]string{{"", ""}, {`\u0001`, "\x01"}, {`\u007f`, "\x7f"}, {`\u000b`, "\v"}, {`\udb80\udc00`, "\U000f0000"}, {"é", "é"}, {" ", " "}}
var keySuf = keySufs[0]

type rowT struct {
	ID  int             `json:"id"`
	Doc json.RawMessage `json:"doc"`
}
type obsT struct {
	ID       int             `json:"id"`
	Doc      json.RawMessage `json:"doc"`
	Text     string          `json:"text"`
	Wire     []string        `json:"wire"`
	Back     []string        `json:"back"`
	Err      string          `json:"err"`
	WireText string          `json:"wireText"`
	BackText string          `json:"backText"`
}

func render(d map[string]interface{}) string {
	switch d["k"] {
	case "num":
		return num
	case "big":
		return big
	case "lit":
		return "true"
	case "nul":
		return "null"
	case "str":
		var b strings.Builder
		b.WriteByte('"')
		for _, t := range d["s"].([]interface{}) {
			if t == "q" {
				b.WriteString(`\"`)
			} else if t == "x" {
				b.WriteString(strLit[0])
			} else {
				b.WriteString(t.(string))
			}
		}
		b.WriteByte('"')
		return b.String()
	case "obj":
		parts := []string{}
		for _, m := range d["m"].([]interface{}) {
			kv := m.([]interface{})
			parts = append(parts, `"`+kv[0].(string)+keySuf[0]+`":`+render(kv[1].(map[string]interface{})))
		}
		return "{" + strings.Join(parts, ",") + "}"
	case "arr":
		parts := []string{}
		for _, e := range d["e"].([]interface{}) {
			parts = append(parts, render(e.(map[string]interface{})))
		}
		return "[" + strings.Join(parts, ",") + "]"
	}
	panic("unknown node")
}

// jsonStringEnd returns the index just after the JSON string literal that starts at s[i] (s[i] == '"'), or -1
func jsonStringEnd(s string, i int) int {
	for j := i + 1; j < len(s); j++ {
		switch s[j] {
		case '\\':
			j++
		case '"':
			return j + 1
		}
	}
	return -1
}

func tokens(s string) []string {
	out := []string{}
	for i := 0; i < len(s); {
		if s[i] == '"' {
			// a string literal: compared by the value it denotes
			end := jsonStringEnd(s, i)
			var v string
			if end < 0 || json.Unmarshal([]byte(s[i:end]), &v) != nil {
				out = append(out, "invalid-string:"+s[i:])
				return out
			}
			out = append(out, `"`)
			if keySuf[1] != "" && (v == "a"+keySuf[1] || v == "b"+keySuf[1]) {
				v = v[:1] // a member name as the document wrote it
			}
			for k := 0; k < len(v); {
				switch {
				case strings.HasPrefix(v[k:], strLit[1]):
					out = append(out, "x")
					k += len(strLit[1])
				case v[k] == '"':
					out = append(out, "q")
					k++
				default:
					_, w := utf8.DecodeRuneInString(v[k:])
					out = append(out, v[k:k+w])
					k += w
				}
			}
			out = append(out, `"`)
			i = end
			continue
		}
		switch {
		case strings.HasPrefix(s[i:], big):
			out = append(out, "9")
			i += len(big)
		case strings.HasPrefix(s[i:], num) && (i+len(num) == len(s) || strings.IndexByte(",]}", s[i+len(num)]) >= 0) && (i == 0 || strings.IndexByte(":,[", s[i-1]) >= 0):
			out = append(out, "1")
			i += len(num)
		case strings.HasPrefix(s[i:], "true"):
			out = append(out, "t")
			i += 4
		case strings.HasPrefix(s[i:], "null"):
			out = append(out, "n")
			i += 4
		case strings.HasPrefix(s[i:], `\"`):
			out = append(out, "q")
			i += 2
		case strings.IndexByte("0123456789+-.eE", s[i]) >= 0:
			// part of a number that is not the literal the document was written with
			out = append(out, "digit:"+s[i:i+1])
			i++
		default:
			out = append(out, s[i:i+1])
			i++
		}
	}
	return out
}

func main() {
	in := flag.String("rows", "", "ndjson rows")
	obs := flag.String("obs", "", "ndjson observations")
	flag.Parse()
	out, err := vh.NewWriter(*obs)
	if err != nil {
		fmt.Fprintln(os.Stderr, err)
		os.Exit(2)
	}
	n := 0
	if err := vh.ReadLines(*in, func(b []byte) error {
		var r rowT
		if err := json.Unmarshal(b, &r); err != nil {
			return err
		}
		var d map[string]interface{}
		if err := json.Unmarshal(r.Doc, &d); err != nil {
			return err
		}
		num, big = numLits[r.ID%len(numLits)], bigLits[(r.ID/len(numLits))%len(bigLits)]
		strLit = strLits[(r.ID/3)%len(strLits)]
		keySuf = keySufs[(r.ID/5)%len(keySufs)]
		o := obsT{ID: r.ID, Doc: r.Doc, Text: render(d), Wire: []string{}, Back: []string{}}
		wire, werr := ship.JsonIntoEEBUSJson([]byte(o.Text))
		if werr != nil {
			o.Err = werr.Error()
		} else {
			back := ship.JsonFromEEBUSJson([]byte(wire))
			o.WireText, o.BackText = wire, string(back)
			o.Wire, o.Back = tokens(wire), tokens(string(back))
		}
		out.Write(o)
		n++
		return nil
	}); err != nil || n == 0 {
		fmt.Fprintln(os.Stderr, "no rows:", err)
		os.Exit(2)
	}
	out.Close()
	fmt.Printf("eebusjson: %d documents\n", n)
}
