// Package vh holds what every conformance harness shares: the ordered event log, deadline-guarded
// calls, ndjson I/O and a bounded worker pool.
package vh

import (
	"bufio"
	"encoding/json"
	"fmt"
	"net"
	"os"
	"runtime/debug"
	"strconv"
	"sync"
	"sync/atomic"
	"time"
)

// Event is one observable effect of the real code; V is always a string (TLC compares them)
type Event struct {
	K string `json:"k"`
	V string `json:"v"`
}

// Log is an ordered, mutex protected event log
type Log struct {
	mu    sync.Mutex
	ev    []Event
	ended bool
}

func (l *Log) Add(k, v string) {
	l.mu.Lock()
	if !l.ended {
		l.ev = append(l.ev, Event{k, v})
	}
	l.mu.Unlock()
}
func (l *Log) Len() int { l.mu.Lock(); defer l.mu.Unlock(); return len(l.ev) }
func (l *Log) Since(n int) []Event {
	l.mu.Lock()
	defer l.mu.Unlock()
	out := make([]Event, len(l.ev)-n)
	copy(out, l.ev[n:])
	return out
}
func (l *Log) End() { l.mu.Lock(); l.ended = true; l.mu.Unlock() }
func (l *Log) Has(n int, k, v string) bool {
	l.mu.Lock()
	defer l.mu.Unlock()
	for _, e := range l.ev[n:] {
		if e.K == k && (v == "" || e.V == v) {
			return true
		}
	}
	return false
}

// Call runs f on its own goroutine under a deadline. done is closed when f returned.
type CallResult struct {
	Panicked bool
	PanicMsg string
	Hung     bool
	Done     chan struct{}
}

func Call(deadline time.Duration, f func()) *CallResult {
	r := &CallResult{Done: make(chan struct{})}
	var mu sync.Mutex
	go func() {
		defer func() {
			if x := recover(); x != nil {
				mu.Lock()
				r.Panicked = true
				r.PanicMsg = fmt.Sprint(x) + "\n" + string(debug.Stack())
				mu.Unlock()
			}
			close(r.Done)
		}()
		f()
	}()
	select {
	case <-r.Done:
		mu.Lock()
		defer mu.Unlock()
		return r
	case <-time.After(deadline):
		r.Hung = true
		return r
	}
}

// ReadLines reads an ndjson file line by line
func ReadLines(path string, each func(line []byte) error) error {
	f, err := os.Open(path)
	if err != nil {
		return err
	}
	defer f.Close()
	sc := bufio.NewScanner(f)
	sc.Buffer(make([]byte, 1<<20), 1<<28)
	for sc.Scan() {
		b := append([]byte{}, sc.Bytes()...)
		if len(b) == 0 {
			continue
		}
		if err := each(b); err != nil {
			return err
		}
	}
	return sc.Err()
}

// Writer writes ndjson lines concurrently
type Writer struct {
	mu sync.Mutex
	f  *os.File
	w  *bufio.Writer
}

func NewWriter(path string) (*Writer, error) {
	f, err := os.Create(path)
	if err != nil {
		return nil, err
	}
	return &Writer{f: f, w: bufio.NewWriterSize(f, 1<<20)}, nil
}
func (w *Writer) Write(v interface{}) {
	b, err := json.Marshal(v)
	if err != nil {
		panic(err)
	}
	w.mu.Lock()
	w.w.Write(b)
	w.w.WriteByte('\n')
	w.mu.Unlock()
}
func (w *Writer) Close() { w.mu.Lock(); w.w.Flush(); w.f.Close(); w.mu.Unlock() }

// Pool runs jobs with bounded parallelism
func Pool(n, par int, job func(i int)) {
	sem := make(chan struct{}, par)
	var wg sync.WaitGroup
	for i := 0; i < n; i++ {
		wg.Add(1)
		sem <- struct{}{}
		go func(i int) {
			defer wg.Done()
			defer func() { <-sem }()
			job(i)
		}(i)
	}
	wg.Wait()
}

func EnvInt(name string, def int) int {
	if v := os.Getenv(name); v != "" {
		if n, err := strconv.Atoi(v); err == nil {
			return n
		}
	}
	return def
}

func B(b bool) string {
	if b {
		return "T"
	}
	return "F"
}

// Listen is net.Listen("tcp", addr) that waits when the machine has run out of ephemeral ports for a moment (thousands of
// short-lived loopback connections of several harnesses leave sockets in TIME_WAIT) instead of giving up at once
func Listen(addr string) (net.Listener, error) {
	var l net.Listener
	var err error
	for i := 0; i < 200; i++ {
		if l, err = net.Listen("tcp", addr); err == nil {
			return l, nil
		}
		time.Sleep(50 * time.Millisecond)
	}
	return nil, err
}

var hubPortNext atomic.Int32

// HubPort returns a TCP port for a server that listens by port NUMBER (a hub): taken from below the range the kernel
// hands out for ":0" listeners and outgoing connections, each number once per process, starting at an offset that
// differs between processes, and probed before use. (Asking the kernel for a free port and releasing it again lets
// another listener of the same process get that number in between: its traffic then ends at the wrong server.)
func HubPort() int {
	for try := 0; try < 4000; try++ {
		k := int(hubPortNext.Add(1))
		p := 10000 + (os.Getpid()*131+k)%20000
		l, err := net.Listen("tcp", fmt.Sprintf(":%d", p))
		if err != nil {
			continue
		}
		_ = l.Close()
		return p
	}
	panic("no free port for a hub")
}
