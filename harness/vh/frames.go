// Abstraction of what the real code reports and writes: handshake state names and the classes of SHIP frames
// (shared by the harnesses that observe real connections).
package vh

import (
	"regexp"
	"strconv"
	"strings"

	"github.com/enbility/ship-go/model"
)

var StNames = map[model.ShipMessageExchangeState]string{0: "InitStart", 1: "ClientSend", 2: "ClientWait", 3: "ClientEvaluate", 4: "ServerWait", 5: "ServerEvaluate",
	6: "Hello", 7: "ReadyInit", 8: "ReadyListen", 9: "ReadyTimeout", 10: "PendingInit", 11: "PendingListen", 12: "PendingTimeout", 13: "HelloOk", 14: "Abort", 15: "AbortDone", 16: "RemoteAbortDone", 17: "Rejected",
	18: "ServerInit", 19: "ClientInit", 20: "ServerListenProposal", 21: "ServerListenConfirm", 22: "ClientListenChoice", 23: "ProtTimeout", 24: "ClientOk", 25: "ServerOk",
	26: "PinCheckInit", 27: "PinCheckListen", 28: "PinCheckError", 29: "PinCheckBusyInit", 30: "PinCheckBusyWait", 31: "PinCheckOk", 32: "PinAskInit", 33: "PinAskProcess", 34: "PinAskRestricted", 35: "PinAskOk",
	36: "AccessMethodsRequest", 37: "Approved", 38: "Complete", 39: "Error"}

func StName(s model.ShipMessageExchangeState) string {
	if n, ok := StNames[s]; ok {
		return n
	}
	return "State" + strconv.Itoa(int(s))
}

var IDs = map[string]string{"A": "SHIP-A", "B": "SHIP-B", "a": "ship-a", "empty": ""}

func AbsID(s string) string {
	switch s {
	case "SHIP-A", "shipid-A":
		return "A"
	case "SHIP-B", "shipid-B":
		return "B"
	case "ship-a", "SHIPID-a":
		return "a"
	case "":
		return "empty"
	}
	return "other"
}

func reStr(k string) *regexp.Regexp { return regexp.MustCompile(`"` + k + `":"([^"]*)"`) }

var (
	rePhase   = reStr("phase")
	reHsType  = reStr("handshakeType")
	rePin     = reStr("pinState")
	reID      = reStr("id")
	reWaiting = regexp.MustCompile(`"waiting":(\d+)`)
)

// classify maps a frame written by the real code to (event kind, abstract message string, id)
func Classify(b []byte) (kind, m, id string) {
	if len(b) == 2 && b[0] == 0 && b[1] == 0 {
		return "sent", "init.ok", ""
	}
	if len(b) == 0 {
		return "sent", "empty", ""
	}
	s := string(b[1:])
	g := func(re *regexp.Regexp) string {
		if x := re.FindStringSubmatch(s); x != nil {
			return x[1]
		}
		return ""
	}
	switch {
	case b[0] == model.MsgTypeData && strings.Contains(s, `"datagram"`):
		n := "?"
		if x := ReN.FindStringSubmatch(s); x != nil {
			n = x[1]
		}
		return "sentdata", "data", n
	case strings.Contains(s, `"connectionHello"`):
		w, p := "absent", "absent"
		if x := reWaiting.FindStringSubmatch(s); x != nil {
			v, _ := strconv.Atoi(x[1])
			switch {
			case v < 1000:
				w = "lt1"
			case v < 30000:
				w = "mid"
			default:
				w = "ge30"
			}
		}
		if strings.Contains(s, `"prolongationRequest":true`) {
			p = "true"
		} else if strings.Contains(s, `"prolongationRequest":false`) {
			p = "false"
		}
		return "sent", "hello." + g(rePhase) + "." + w + "." + p, ""
	case strings.Contains(s, `"messageProtocolHandshake"`):
		return "sent", "prot." + g(reHsType), ""
	case strings.HasPrefix(s, `{"error"`):
		return "sent", "proterr", ""
	case strings.Contains(s, `"connectionPinState"`):
		return "sent", "pin." + g(rePin), ""
	case strings.Contains(s, `"accessMethodsRequest"`):
		return "sent", "accreq", ""
	case strings.Contains(s, `"accessMethods"`):
		i := AbsID(g(reID))
		return "sent", "acc." + i, i
	case strings.Contains(s, `"connectionClose"`):
		return "sentclose", "close." + g(rePhase), ""
	}
	return "sent", "unclassified", ""
}

// ReN extracts the identifier the harnesses put into the SPINE payloads they send
var ReN = regexp.MustCompile(`"n":"([^"]*)"`)
