module verifharness

go 1.22.0

require (
	github.com/enbility/go-avahi v0.0.0-20240909195612-d5de6b280d7a
	github.com/enbility/ship-go v0.0.0
	github.com/godbus/dbus/v5 v5.1.0
	github.com/gorilla/websocket v1.5.3
)

require (
	github.com/enbility/zeroconf/v2 v2.0.0-20240920094356-be1cae74fda6 // indirect
	github.com/miekg/dns v1.1.62 // indirect
	gitlab.com/c0b/go-ordered-json v0.0.0-20201030195603-febf46534d5a // indirect
	golang.org/x/net v0.29.0 // indirect
	golang.org/x/sys v0.25.0 // indirect
)

replace github.com/enbility/ship-go => /repo
