module verifharness

go 1.22.0

require github.com/enbility/ship-go v0.0.0

replace github.com/enbility/ship-go => /repo
