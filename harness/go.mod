module verifharness

go 1.22.0

require (
	github.com/enbility/ship-go v0.0.0
	github.com/gorilla/websocket v1.5.3
)

require gitlab.com/c0b/go-ordered-json v0.0.0-20201030195603-febf46534d5a // indirect

replace github.com/enbility/ship-go => /repo
