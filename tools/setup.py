#!/usr/bin/env python3
"""setup: only checks that the pre-installed tools are there; every check builds what it needs from /repo itself."""
import shutil
import subprocess
import sys

missing = [t for t in ("tlc", "go", "java", "python3") if shutil.which(t) is None]
if missing:
    print("missing tools:", missing)
    sys.exit(1)
p = subprocess.run(["go", "version"], stdout=subprocess.PIPE, text=True)
print(p.stdout.strip())
print("setup ok")
