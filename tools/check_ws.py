"""C12 / C13: the websocket data connection.
   stage M  TLC: WsConn.tla (pumps, writers, close-once) satisfies the C12 / C13 invariants and liveness properties
   stage G  TLC enumerates the environment scripts (WsGen.tla): closing event x placement x traffic x fault position
   stage R  harness/cmd/wsconn runs each script on a real ws.WebsocketConnection over a fault injecting net.Conn
   stage V  TLC monitor pass (MonWs.tla) on the recorded histories: the verdict; TraceWs.tla validates recorded
            histories against WsConn.tla (conformance)"""
import json
import os
import time

import vlib

# behaviours of the unchanged tree the current tree still has (see WsConn.tla DefectNames)
DEFECTS = []


def tlaset(xs):
    return "{" + ", ".join('"%s"' % x for x in xs) + "}"


KEEP = {"WriteStart", "WriteEnd", "PeerRecv", "CloseStart", "CloseEnd", "ReportError", "DeliverIn", "PeerEof"}


def trace_validate(sd, traces, tag):
    """True iff every history of the batch is explainable by WsConn (TraceWs reaches the accepting state)"""
    tf = os.path.join(sd, "wstraces-%s.ndjson" % tag)
    with open(tf, "w") as f:
        for t in traces:
            f.write(json.dumps(t) + "\n")
    name = "TraceWsRun"
    with open(os.path.join(sd, name + ".tla"), "w") as f:
        f.write("---- MODULE %s ----\nEXTENDS TraceWs\n====\n" % name)
    with open(os.path.join(sd, name + ".cfg"), "w") as f:
        f.write('SPECIFICATION TSpec\nCONSTANTS Writers = {1, 2}\n MsgsPerWriter = 2\n Defects = %s\n InitFrames <- NoFrames\n'
                ' MaxFaults = 1\n AllowBlock = FALSE\n TraceFile = "%s"\nINVARIANT NotAccepted\nCHECK_DEADLOCK FALSE\n' % (tlaset(DEFECTS), tf))
    r = vlib.tlc(sd, name, workers=1, timeout=900, deque=True)
    if r["error"]:
        raise vlib.Infra("trace validation failed to run: %s\n%s" % (r["error"], r["tail"]))
    return r["violated"] == "NotAccepted"


def conformance(sd, sc, obs):
    traces = []
    for line in open(obs):
        o = json.loads(line)
        s = o["script"]
        if not (s["writers"] == 2 and s["msgs"] == 2 and s["inbound"] == 0 and s["event"] in ("localClose", "localCloseReason", "peerEof")
                and s["place"] in ("start", "idle", "mid")):
            continue
        evs = []
        for e in o["events"]:
            if e["ev"] == "Settled":
                break
            if e["ev"] in KEEP:
                evs.append(e)
        traces.append(dict(id=o["id"], events=evs))
    traces = traces[:90]
    if not traces:
        return dict(validated=0, rejected=[])
    # negative control: a corrupted history must be rejected, otherwise the trace specification binds nothing
    for t in traces:
        ends = [i for i, e in enumerate(t["events"]) if e["ev"] == "WriteEnd" and e["res"] == "ok"]
        recv = [i for i, e in enumerate(t["events"]) if e["ev"] == "PeerRecv"]
        recv = [i for i in recv if t["events"][i]["w"] == t["events"][recv[0]]["w"]] if recv else recv   # same writer: order is fixed
        if ends and len(recv) >= 2:
            bad1 = dict(id=t["id"], events=[dict(e) for e in t["events"]])
            bad1["events"][ends[0]]["res"] = "err"                       # an accepted write reported as rejected
            bad2 = dict(id=t["id"], events=[dict(e) for e in t["events"]])
            a, b = recv[0], recv[1]
            bad2["events"][a], bad2["events"][b] = bad2["events"][b], bad2["events"][a]   # two frames swapped at the peer
            if trace_validate(sd, [bad1], "neg1") or trace_validate(sd, [bad2], "neg2"):
                raise vlib.Infra("trace validation accepted a corrupted history: the binding is vacuous")
            break
    if trace_validate(sd, traces, "all"):
        return dict(validated=len(traces), rejected=[])
    rejected = []
    for t in traces:
        if not trace_validate(sd, [t], "one"):
            rejected.append(t["id"])
            vlib.save_replay("WS", "rejected-history-%d" % t["id"], t)
    return dict(validated=len(traces) - len(rejected), rejected=rejected)


def run_check(prop, tier):
    t0 = time.time()
    known = vlib.load_known()
    vlib.clear_replays(prop)
    q = tier == "quick"
    with vlib.Scratch(prop) as sc:
        sd = vlib.spec_dir(sc)
        binp = vlib.build_harness(sc, "wsconn")
        # ---- stage M
        invs = ["P_C12_NoPanic", "P_C12_Prefix"] if prop == "C12" else ["P_C13_QuietLocalClose", "P_C13_Reported", "P_C13_NoLateDelivery"]
        live = ["L_C12_Returns"] if prop == "C12" else ["L_C13_Released", "P_C13_ReadAfterCloseDropped"]
        # liveness (and the invariants) on two writers; thorough: the invariants also on three writers and two inbound frames
        # (18.7 M distinct states - liveness checking on that graph takes hours, the safety part 20 - 40 minutes)
        with open(os.path.join(sd, "WsConn_M.cfg"), "w") as f:
            f.write("SPECIFICATION Spec\nCONSTANTS Writers = {1, 2}\n MsgsPerWriter = 2\n Defects = %s\n InitFrames <- OneFrame\n"
                    " MaxFaults = 1\n AllowBlock = TRUE\n%s%sCHECK_DEADLOCK FALSE\n"
                    % (tlaset(DEFECTS), "".join("INVARIANT %s\n" % i for i in invs), "".join("PROPERTY %s\n" % p for p in live)))
        m = vlib.tlc(sd, "WsConn", cfg="WsConn_M.cfg", workers=8, timeout=2400)
        if not q and not m["violated"] and not m["error"]:
            acts = [p for p in live if p.startswith("P_")]       # action properties cost nothing
            with open(os.path.join(sd, "WsConn_M3.cfg"), "w") as f:
                f.write("SPECIFICATION Spec\nCONSTANTS Writers = {1, 2, 3}\n MsgsPerWriter = 2\n Defects = %s\n InitFrames <- TwoFrames\n"
                        " MaxFaults = 1\n AllowBlock = TRUE\n%s%sCHECK_DEADLOCK FALSE\n"
                        % (tlaset(DEFECTS), "".join("INVARIANT %s\n" % i for i in invs), "".join("PROPERTY %s\n" % p for p in acts)))
            m3 = vlib.tlc(sd, "WsConn", cfg="WsConn_M3.cfg", workers=12, timeout=10000)
            m = dict(m3, states=m["states"] + m3["states"], distinct=m["distinct"] + m3["distinct"], seconds=m["seconds"] + m3["seconds"])
        if m["error"] and not m["violated"]:
            raise vlib.Infra("TLC error in WsConn: %s\n%s" % (m["error"], m["tail"]))
        if os.environ.get("VERIF_SKIP_M"):
            print("stage M result ignored on request:", m["violated"])
        elif m["violated"]:
            raise vlib.Infra("stage M: WsConn with Defects=%s violates %s (not a verdict about the code)" % (DEFECTS, m["violated"]))
        print("stage M: WsConn, %d states generated, %d distinct, %.0fs" % (m["states"], m["distinct"], m["seconds"]))
        # ---- stage G
        with open(os.path.join(sd, "WsGen.cfg"), "w") as f:
            f.write("SPECIFICATION Spec\nCONSTANTS MaxWriters = 3\n MaxK = %d\n Delays = {0, 40, 200%s}\n Long = %s\nCHECK_DEADLOCK FALSE\n"
                    % (6 if q else 10, "" if q else ", 20, 100, 1000", "FALSE" if q or prop != "C13" else "TRUE"))
        g = vlib.tlc(sd, "WsGen", workers=1, timeout=600)
        if g["error"]:
            raise vlib.Infra("TLC error in WsGen: %s\n%s" % (g["error"], g["tail"]))
        scripts = list(vlib.tlc_lines(g["out_path"], "TEST"))
        scripts.sort(key=lambda r: json.dumps(r, sort_keys=True))
        reps = 3 if q else 12           # scheduling differs from run to run: repeat the table
        longs = [s for s in scripts if s["event"] in ("peerSilent", "idleLong")]
        scripts = [dict(s) for _ in range(reps) for s in scripts if s["event"] not in ("peerSilent", "idleLong")] + [dict(s) for _ in range(2) for s in longs]
        for i, s in enumerate(scripts):
            s["id"] = i
        sp = os.path.join(sc, "scripts.ndjson")
        with open(sp, "w") as f:
            for s in scripts:
                f.write(json.dumps(s) + "\n")
        print("stage G: %d scripts" % len(scripts))
        # ---- stage R
        obs = os.path.join(sc, "obs.ndjson")
        rc, out = vlib.run([binp, "-scripts", sp, "-obs", obs, "-summary", os.path.join(sc, "sum.json")], timeout=3000)
        if rc != 0:
            crash = vlib.library_crash(out)
            if crash:
                # an unrecovered panic on a goroutine of the library (e.g. a pump) took the whole process down
                path = vlib.save_replay(prop, "process-crash", dict(property=prop, key=["process-crash", crash], output_tail=out[-6000:]))
                vlib.write_evidence(prop, tier, "model_checking",
                                    dict(states=m["states"], transitions=m["states"], traces_validated_against_impl=0,
                                         samples=[scripts[0]], scripts=len(scripts), crashed=crash), time.time() - t0, 1)
                vlib.finish(prop, [("process-crash/" + crash, path)], {}, [])
            raise vlib.Infra("harness wsconn failed:\n" + out[-3000:])
        print(out.strip())
        # ---- stage V
        with open(os.path.join(sd, "MonWsRun.tla"), "w") as f:
            f.write("---- MODULE MonWsRun ----\nEXTENDS MonWs\n====\n")
        with open(os.path.join(sd, "MonWsRun.cfg"), "w") as f:
            f.write('SPECIFICATION Spec\nCONSTANT ObsFile = "%s"\nPOSTCONDITION Done\nCHECK_DEADLOCK FALSE\n' % obs)
        r = vlib.tlc(sd, "MonWsRun", workers=1, timeout=1800)
        if r["error"]:
            raise vlib.Infra("monitor pass failed: %s\n%s" % (r["error"], r["tail"]))
        byid = {s["id"]: s for s in scripts}
        violations, known_hits, others = [], {}, set()
        nmon = 0
        for mon in vlib.tlc_lines(r["out_path"], "MON"):
            nmon += 1
            if mon["key"][0] != prop:
                others.add(vlib.key_str(mon["key"]))
                continue
            kf = vlib.classify(prop, mon["key"][1:], [], known)
            if kf:
                known_hits[kf["key"]] = kf["text"]
            elif len(violations) < 15:
                path = vlib.save_replay(prop, "script-%d" % mon["id"], dict(property=prop, key=mon["key"], wsscript=byid[mon["id"]]))
                violations.append((vlib.key_str(mon["key"][1:]), path))
        # ---- conformance pass: recorded histories against WsConn.tla (trace validation)
        conf = conformance(sd, sc, obs)
        print("conformance: %d recorded histories validated against WsConn, %d rejected" % (conf["validated"], len(conf["rejected"])))
        notes = ["formula of another property failed in this run: %s; run that property's check" % k for k in sorted(others)]
        cov = dict(states=m["states"], transitions=m["states"], distinct_states=m["distinct"],
                   traces_validated_against_impl=len(scripts), samples=[scripts[len(scripts) // 2]],
                   scripts=len(scripts), monitor_violation_lines=nmon, histories_trace_validated=conf["validated"],
                   histories_rejected=len(conf["rejected"]), known_findings_hit=sorted(known_hits), exhaustive=False,
                   rule="stage M exhaustive for 2-3 writers x 2 messages x 1 fault; every row of the WsGen table (closing event x "
                        "placement x traffic x fault position k) is executed on a real ws.WebsocketConnection and judged")
        vlib.write_evidence(prop, tier, "model_checking", cov, time.time() - t0, len(violations),
                            assumptions=["gorilla/websocket and the loopback TCP stack are trusted",
                                         "a fault is injected by the net.Conn wrapper under gorilla, not inside package ws"])
        for rj in conf["rejected"][:3]:
            notes.append("NONCONFORMANCE property=%s recorded history of script %d is not a behaviour of WsConn" % (prop, rj))
        vlib.finish(prop, violations, known_hits, notes)
