#!/bin/bash
# seedconfirm.sh <dir with patch.diff and demo_test.go> <package dir of the demo, e.g. hub>
# Confirms a seeded change in a scratch worktree of /repo: demo passes without / fails with the patch, the library builds and
# the pinned suite passes with the patch (the three mdns tests that need a network fail with and without it).
d=$(readlink -f "$1"); pkg=$2
export GOFLAGS=-mod=mod GOPROXY=off GOSUMDB=off GOTOOLCHAIN=local
wt=$(mktemp -d /tmp/seedcf-XXXXXX)
git -C /repo worktree add --detach "$wt" HEAD >/dev/null 2>&1 || exit 2
trap 'git -C /repo worktree remove --force "$wt" >/dev/null 2>&1; rm -rf "$wt"' EXIT
cd "$wt" || exit 2
cp "$d/demo_test.go" "$pkg/zz_demo_test.go"
echo "--- demo WITHOUT the patch (expect ok)"; timeout 300 go test -vet=off -count=1 -run 'Demo|Seed|ZZ|Zz' ./$pkg/ 2>&1 | tail -n 3
git apply "$d/patch.diff" || { echo "PATCH DOES NOT APPLY"; exit 1; }
echo "--- build WITH the patch"; go build ./... && echo build-ok
echo "--- demo WITH the patch (expect FAIL)"; timeout 300 go test -vet=off -count=1 -run 'Demo|Seed|ZZ|Zz' ./$pkg/ 2>&1 | tail -n 6
rm "$pkg/zz_demo_test.go"
echo "--- suite WITH the patch"; timeout 1500 go test -vet=off -count=1 -timeout 25m ./... 2>&1 | grep -E "^(--- FAIL|FAIL|ok|panic)" | tail -n 16
