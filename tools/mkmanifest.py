#!/usr/bin/env python3
"""writes MANIFEST.json from the table below (kept in one place so that it stays valid)"""
import json
import os
import subprocess

V = os.path.dirname(os.path.dirname(os.path.abspath(__file__)))

SME_NOTE = ("trusted: TLC, the Go runtime, the harness fakes of the websocket writer / hub (they behave like the real "
            "neighbours: closed after CloseDataConnection, writes fail when closed), the finite concretisation of abstract "
            "message classes; handlers of one connection are modelled as running one at a time")

CHECKS = {
    "C01": dict(engine="sme", technique="TLA+ model checking (TLC) of ShipSme + replay of TLC behaviours into the real ShipConnection, judged by a TLC monitor pass",
                text="ShipSme.tla (one action per Go handler) is model checked exhaustively against the trust-gate formula for every "
                     "role / trust configuration under an unrestricted adversary; every edge of the bounded-hostility graphs and "
                     "simulated long behaviours are replayed into real ship.ShipConnection objects with step-by-step conformance, and "
                     "the same formula is evaluated by TLC on what the real code reported (states, setup callback, payload deliveries) "
                     "against the trust the harness actually granted. Hub level: HubApi.tla (invariant: the hub holds a service trusted "
                     "only on the user's word) with every behaviour replayed into a real hub.Hub, and two real hubs whose every "
                     "ShipConnection is observed through wrappers (hooks ship.VerifWrap / VerifEntry): the same SmeProps operators run over "
                     "each recorded connection history, with trust = what the real hub answered (paired / auto accept) or approved, and "
                     "the hub's answers are judged against the user's recorded operations.", ref="6.C01"),
    "C03": dict(engine="sme", technique="TLA+ model checking of the two-endpoint ShipSme + TLC schedules replayed on two real connections, TLC monitor",
                text="The pair configuration of ShipSme (client and server endpoint, FIFO queues, close propagation, timely and arbitrary "
                     "timer modes) is model checked for agreement at quiescence for all trust x SHIP-id configurations; simulated "
                     "schedules are replayed on two real ShipConnections joined by harness-owned queues (frames are whatever the real "
                     "endpoints wrote) and judged by JudgePair in the TLC monitor pass (a side has ended only when its transport is "
                     "closed and it reported its end). The pair formula is also evaluated at quiescence of scenarios between two real hubs.", ref="6.C03"),
    "C04": dict(engine="sme", technique="TLA+ model checking of ShipSme + replay, the SHIP state graph as a TLA+ constant evaluated on real report sequences",
                text="The allowed reported-state graph of SHIP 13.4.3-13.4.6 is a TLA+ constant; exhaustive model checking shows the "
                     "handler model only produces allowed edges and nothing after a terminal / closed outcome, including a write failure "
                     "at any send; the edge cover and simulations are replayed into the real connection and the real report sequence, "
                     "timer flag, frames and close calls are judged by the same formulas (incl. the transport is closed after any "
                     "CloseConnection call). The same operators run over the live history of every connection two real hubs create; "
                     "what overlapping entry points produce there falls under the known finding concurrent-entry-points.", ref="6.C04"),
    "C05": dict(engine="hub2", technique="TLA+ model checking of Hub2 (two hubs, non-atomic dial/keep/register, delayed dials) + TLC environment scripts on two real hubs, TLC monitor at quiescence",
                text="Hub2.tla models two hubs at critical-section granularity (reports, delayed dial goroutines, keepThisConnection, Run, "
                     "registerConnection, double-connection rule, closes, checkAutoReannounce) and TLC checks 'stable and quiet => exactly "
                     "one good connection, no orphan', 'trusted only on the user's word', 'nothing alive at a hub that was shut down' for all "
                     "interleavings within the bounds (3 / 4 connection ids, 2 disturbances) with Unregister, Disappear, Restart, Shutdown, "
                     "CancelPairing and SetAutoAccept as environment steps. Simulated environment scripts of six families (plain, rich, rich2, "
                     "warm start, wrong stored SHIP id at either hub; each step marked with what the model's registry held) run on two REAL "
                     "hubs: real TLS websockets over loopback, the real MdnsManager over an ether, TCP proxies to count and cut streams, "
                     "with the dial back-off scaled to 2 %, to zero (simultaneous dials) and to zero on one processor. The monitor judges registries, open "
                     "streams and a payload echo in both directions at quiescence.", ref="6.C05",
                note="trusted: TLC; schedules of the real goroutines are chosen by the Go scheduler, only the environment is scripted; "
                     "the handshake inside Hub2 is a one-step summary of ShipSme; quiescence is detected by silence plus registry state"),
    "C06": dict(engine="sme", technique="TLA+ model checking of ShipSme (single + pair) + replay, FIFO/exactly-once formula on real deliveries",
                text="Data frames are injected in every state (single endpoint) and written by both applications (pair); the formula "
                     "'delivered = injected prefix, in order, only after completion, everything while open' is model checked and then "
                     "evaluated on the payload deliveries of the real connections, with the real EEBUS transform in the path; a cooperative "
                     "peer may send up to three data frames at any point of the handshake (held back, flushed in order at completion). "
                     "Two real hubs: received is an ordered duplicate-free selection of sent, and per connection delivered = arrived.", ref="6.C06"),
    "C08": dict(engine="sme", technique="TLA+ model checking for (state x input class) coverage + replay + structured byte-level mutations in every cooperative state",
                text="TLC enumerates every reachable state x message class (including the present-but-empty format list); all edges are "
                     "executed on the real connection under a deadline with panic recovery; in every state a cooperative peer can reach, "
                     "structured mutations of every message class are delivered (the close announce with rotating maxTime values; its "
                     "handler must return once real time has passed). Oracle: no panic, no hang (TLC monitor). mDNS side: the "
                     "TLC-enumerated table of awkward resolver inputs (MdnsBadGen) on a real MdnsManager; websocket side: the frames a "
                     "SHIP peer must never send (WsGen peerBad rows) on a real websocket connection, each followed by a regular frame.", ref="6.C08"),
    "C09": dict(engine="sme", technique="TLA+ model checking of ShipSme over stored x presented SHIP ids + replay, TLC monitor on real id reports / setup",
                text="All (stored, presented) SHIP-id pairs incl. empty / missing / ill-typed, both roles, both orders of request and reply "
                     "are model checked; replay judges the real ReportServiceShipID / SetupRemoteDevice event order and the final state. Hub "
                     "level: Hub2.tla with a hub whose application stored a wrong SHIP id never completes a connection (TLC), and on two real "
                     "hubs (applications that stored nothing / the right / a wrong id, scripts that trust the peer while its request is "
                     "pending) no device is set up at the hub with the wrong id.", ref="6.C09"),
    "C11": dict(engine="sme", technique="TLA+ model checking of ShipSme close paths + replay with the real delayed-close goroutines, TLC monitor",
                text="Connection level: every pair of close causes (local safe/unsafe close, peer announce / confirm, transport error, error "
                     "exit, abort timer, write on a closed writer) in both orders is in the bounded-hostility graph (budget 2); the real "
                     "500 ms / 1 s goroutines are waited for, and HandleConnectionClosed calls are counted per connection object. The hub "
                     "level part (HubApi.tla incl. a registration during the disconnect notification, two real hubs incl. the live history "
                     "of every connection) is composed into this check.", ref="6.C11"),
    "C12": dict(engine="ws", technique="TLA+ model checking of WsConn (TLC, incl. liveness) + environment scripts on the real connection, TLC monitor + trace validation",
                text="WsConn.tla models writers, both pumps and close() at the code's atomicity; TLC checks no-panic, prefix and "
                     "every-write-returns (liveness under per-process fairness) for 2-3 writers, every placement of local close, peer "
                     "EOF, failing and blocked transport writes. The WsGen table (closing event x placement incl. the full outgoing queue "
                     "x traffic) is run on real ws.WebsocketConnections over a fault injecting net.Conn; MonWs judges calls and peer "
                     "frames with interval semantics; recorded histories are trace-validated against WsConn (TraceWs).", ref="6.C12",
                note="trusted: gorilla/websocket, loopback TCP, TLC; faults are injected under gorilla through Dialer.NetDial; "
                     "schedules of the real goroutines are forced through the environment or recorded, never enumerated"),
    "C13": dict(engine="ws", technique="TLA+ model checking of WsConn (TLC, incl. liveness) + fault at every k-th transport read/write on the real connection, TLC monitor",
                text="Same model and engine as C12 with the C13 formulas: loss reported with a non-nil closed-error, quiet local close, "
                     "at most the one in-flight delivery after close, and closed ~> pumps done and socket closed (liveness). On the real "
                     "code a fault is injected at the k-th net.Conn read / write for every k of a session, peer close frames and EOF, "
                     "local close with and without reason, a transport read that returns to the pump only after the local close returned; "
                     "pump goroutines are attributed per scenario from the goroutine dump and net.Conn.Close calls are counted.", ref="6.C13",
                note="trusted: gorilla/websocket, loopback TCP, TLC; pump termination is read from runtime.Stack"),
    "C02": dict(engine="tables", technique="TLA+ decision table CertGate (enumerated and sanity-checked by TLC) evaluated row by row on a real hub over TLS, TLC monitor",
                text="The requirement is a TLA+ decision table over (client certificate, SKI length, binding of the SKI to the key, TLS "
                     "version, sub-protocol offer, what follows the leaf in the client's chain), outbound (dialled vs presented SKI / key) "
                     "and generator subjects. TLC enumerates it; "
                     "each row is executed against a real hub.Hub on loopback (forged x509 certificates, raw crypto/tls + gorilla "
                     "clients, an adversarial TLS server for outbound dials); the monitor evaluates Judge(row, observed). This is an "
                     "input-space property of a gate: the specification contributes the exhaustive table, not interleavings.", ref="6.C02",
                note="trusted: TLC, crypto/tls, crypto/x509, gorilla/websocket; 'SHIP processing started' = the hub answers / sends the init message"),
    "C07": dict(engine="tables", technique="TLA+ token model of the EEBUS JSON shape and of the textual inverse, exhaustive over bounded documents (TLC), each document run through the real transform, TLC monitor",
                text="EebusJson.tla states the SHIP shape (ToEebus) and transcribes the four ReplaceAll passes of JsonFromEEBUSJson over "
                     "character tokens; TLC proves Benign(d) => RoundTrip(d) for every bounded document and witnesses the three failing "
                     "classes. Every enumerated document is rendered, sent through the real JsonIntoEEBUSJson / JsonFromEEBUSJson and the "
                     "tokenised outputs are compared with Wire(d) / Ser(d) by the monitor.", ref="6.C07",
                note="trusted: TLC, encoding/json, the ordered-json library; documents are bounded (depth 2, two members, a token alphabet)"),
    "C16": dict(engine="tables", technique="TLA+ requirement operators over abstract strings (MdnsText), configuration table enumerated by TLC, each row run through the real announce -> parse -> entry path, TLC monitor",
                text="MdnsText.tla defines strings as atoms with byte widths so that the 32 byte limit is hit at every offset of every "
                     "rune width, and the requirement AnnouncedOK / field equality / QR fields. TLC enumerates 2572 rows; the real "
                     "manager announces, the library's own parseTxt and processMdnsEntry read the record back, the QR text is parsed "
                     "with the SHIP;KEY:VALUE;..ENDSHIP; grammar, and the monitor evaluates the requirement on the real outputs. The "
                     "stateful part is MdnsAnnounce.tla: TLC checks 'what is published carries the current auto accept flag' for every "
                     "sequence of announce / unannounce / SetAutoAccept calls with failing provider announcements, and every sequence of "
                     "the stated length runs on a real manager, read back with the library's own parser.", ref="6.C16",
                note="trusted: TLC; atoms are concretised by one representative each; the QR grammar parser is the harness' own"),
    "C10": dict(engine="hub", technique="TLA+ model checking of HubApi (TLC) + replay of TLC behaviours into a real hub.Hub, TLC monitor",
                text="HubApi.tla models every HubInterface method, info-provider callback and mDNS report over two SKIs with a user-intent "
                     "ghost; TLC checks that a dial is only attempted with user intent and never after Shutdown for all operation "
                     "sequences up to the bound. Behaviours (one per edge + simulated) are replayed into a real hub.Hub whose dial attempts "
                     "are observed at refusing TCP listeners; MonHub judges dials, unregister (connection closed, trust cleared) and "
                     "cancel (pending handshake aborted, no connection left that cannot be aborted) on the real observations. The multi-hub "
                     "part of the quantifier is Hub2.tla + scripts on two real hubs (composed into this check): nobody trusts or completes "
                     "without both users' word, nothing alive or dialled at a hub that was shut down, no dial becomes a connection after "
                     "Unregister / CancelPairing returned, no dialled connection open at rest without the user's word. Hub2 is also checked "
                     "with CancelPairingWithSKI as the two steps it is in the code (CancelSplit; the old order of the steps is kept as a "
                     "control that must violate P_C10_trust); on the real hubs the call is held between its steps (hook hub.VerifPoint) "
                     "and a slow network puts user operations into the dial window.", ref="6.C10",
                note="trusted: TLC; connection objects are harness fakes (the SME layer is checked separately); the random dial back-off "
                     "is scaled to zero through the verif delay hook"),
    "C15": dict(engine="hub", technique="TLA+ model HubApi defined on SKI identities + every behaviour replayed twice (canonical / re-spelled) on a real hub.Hub, TLC monitor",
                text="The specification ignores the spelling parameter of every user operation; each TLC behaviour is executed twice "
                     "on real hubs - canonical SKIs and per-call re-spellings (upper case, spaces, dashes, mixed) - and the TLC monitor "
                     "requires both runs to be indistinguishable step by step: trust flags, pairing detail, attempt counters, registry, "
                     "calls received by the connections, hub-reader callbacks, dials.", ref="6.C15",
                note="trusted: TLC; connection objects are harness fakes"),
    "C17": dict(engine="mdns", technique="TLA+ model checking of MdnsMgr (all report delivery orders) + resolver event sequences on the real MdnsManager, TLC monitor with the history oracle",
                text="MdnsOracle.tla states the table as a function of the resolver-event history; MdnsMgr.tla adds the asynchronous "
                     "reports and TLC checks 'last processed report = table' for every delivery order. TLC-simulated event sequences "
                     "(valid / invalid TXT classes, address sets incl. IPv6 link-local, removes of unknown services) with a delivery "
                     "order are fed to a real MdnsManager through its own resolver callback; the monitor folds the oracle over the "
                     "recorded events and compares the manager's table after every event and the last report at quiescence. A second "
                     "pass runs the same sequences as bursts on one processor, where the report goroutine spawned last runs first.", ref="6.C17",
                note="trusted: TLC; the provider below the manager is a stand-in; a late report goroutine is emulated by a delay in the "
                     "report callback and by the run-last-spawned-first order of a single processor"),
    "C18": dict(engine="hub", technique="TLA+ model HubApi (stored details, delayed notes) + replay into a real hub.Hub with the real 500 ms notification goroutines, TLC monitor",
                text="Every HandleShipHandshakeStateUpdate of a replayed behaviour stores a detail and starts the real delayed "
                     "notification goroutine; the harness records store order (by detail identity) and delivery order; the TLC monitor "
                     "requires that no older detail is delivered after a newer one and that the last notification equals "
                     "PairingDetailForSki at quiescence. Runs between two real hubs are added by the two-hub engine.", ref="6.C18",
                note="trusted: TLC; handshake state sequences come from the model, not from a real peer"),
    "C19": dict(engine="avahi", technique="TLA+ model checking of Avahi (TLC) + environment scripts on the real AvahiProvider over a fake daemon, TLC monitor",
                text="Avahi.tla models announce bookkeeping, the Disconnected callback, the reconnect loops and Shutdown against a daemon "
                     "that goes away and comes back, the listener goroutine resolving a browse result while Shutdown is called; TLC checks "
                     "'published = requested once settled', 'nothing after shutdown', 'shutdown is final' and the liveness 'a Shutdown that "
                     "was called returns' (with a negative control) for all interleavings within the bounds. Simulated scripts run on the real provider over a fake "
                     "avahi.ServerInterface with the real 1 s retry sleeps; the monitor judges the daemon-side state, calls after Shutdown "
                     "returned, hangs / panics and that a service resolved afterwards is reported.", ref="6.C19",
                note="trusted: TLC; the daemon is a fake behind avahi.ServerInterface; go-avahi's own dbus layer is not exercised"),
    "C14": dict(engine="timer", technique="TLA+ refinement Timer => AbsTimer (TLC) + all arm/stop scripts on real timers, timed-AbsTimer TLC monitor",
                text="Timer.tla models setHandshakeTimer/stopHandshakeTimer at goroutine granularity and TLC checks that it refines "
                     "AbsTimer (the timer ShipSme assumes); TimerGen enumerates every arm/stop/re-arm/expire script, which is run on real "
                     "connections with real timers under GOMAXPROCS=1 and default, thousands concurrently; a timed AbsTimer monitor judges "
                     "every delivered timeout.", ref="6.C14",
                note="trusted: TLC, Go timers; a delivered timeout is observed through the prolongation-request frame the connection "
                     "writes in pending-listen; 50 ms margin separates 'well before expiry' from concurrent"),
}

NOT_APPLICABLE = {
    "C20": "data-race freedom is a property of individual memory accesses and happens-before edges; a TLA+ specification bound to this "
           "code through its interfaces cannot observe it (DESIGN.md section 7); the Go race detector is a different technique",
}
NOT_YET = {
}


def hook_commits():
    out = subprocess.run(["git", "-C", "/repo", "log", "--format=%H %s"], stdout=subprocess.PIPE, text=True).stdout
    return [l.split()[0] for l in out.splitlines() if " verif hooks" in l]


def main():
    checks = []
    for pid in sorted(CHECKS):
        c = CHECKS[pid]
        checks.append(dict(
            property_id=pid,
            quick_cmd="python3 tools/check.py %s --tier quick" % pid,
            thorough_cmd="python3 tools/check.py %s --tier thorough" % pid,
            evidence_file="/verif/evidence/%s.json" % pid,
            replay_cmd_template="python3 tools/replay.py {path}",
            engine=c["engine"],
            level_claimed=dict(category="model_checking", text=c["text"], design_ref="DESIGN.md section " + c["ref"]),
            level_note=c.get("note", SME_NOTE),
            technique=c["technique"]))
    na = [dict(property_id=k, reason=v) for k, v in sorted({**NOT_APPLICABLE, **{k: v for k, v in NOT_YET.items() if k not in CHECKS}}.items())]
    man = dict(
        version=1,
        setup_cmd="python3 tools/setup.py",
        hooks=dict(guard="verif",
                   enable="go build -tags verif (harness module /verif/harness, replace github.com/enbility/ship-go => /repo)",
                   baseline_off_cmd="cd /repo && go test -vet=off -count=1 -timeout 25m ./...",
                   source_commits=hook_commits(), add_only=True),
        engines=[
            dict(name="sme", path="spec/ShipSme.tla spec/SmeProps.tla spec/MonSme.tla harness/cmd/sme tools/check_sme.py",
                 serves_properties=["C01", "C03", "C04", "C06", "C08", "C09", "C11"],
                 kind_free_text="TLC model checking + replay of TLC behaviours into real ship.ShipConnection objects + TLC monitor pass"),
            dict(name="ws", path="spec/WsConn.tla spec/WsGen.tla spec/MonWs.tla spec/TraceWs.tla harness/cmd/wsconn tools/check_ws.py",
                 serves_properties=["C12", "C13"],
                 kind_free_text="TLC model checking incl. liveness + scripted runs of the real websocket connection + TLC monitor + trace validation"),
            dict(name="hub", path="spec/HubApi.tla spec/MonHub.tla harness/cmd/hubapi tools/check_hub.py",
                 serves_properties=["C01", "C10", "C11", "C15", "C18"],
                 kind_free_text="TLC model checking + replay of TLC behaviours into a real hub.Hub (twice: canonical / re-spelled SKIs) + TLC monitor"),
            dict(name="mdns", path="spec/MdnsMgr.tla spec/MdnsOracle.tla spec/MonMdns.tla harness/cmd/mdnsmgr tools/check_mdns.py",
                 serves_properties=["C17"], kind_free_text="TLC model checking + resolver event sequences on the real MdnsManager + TLC monitor"),
            dict(name="avahi", path="spec/Avahi.tla spec/MonAvahi.tla harness/cmd/avahi tools/check_avahi.py",
                 serves_properties=["C19"], kind_free_text="TLC model checking + scripted runs of the real AvahiProvider on a fake daemon + TLC monitor"),
            dict(name="tables", path="spec/CertGate.tla spec/EebusJson.tla spec/MdnsText.tla spec/MdnsAnnounce.tla (+ generators and monitors) harness/cmd/{certgate,eebusjson,mdnstext} tools/check_{cert,json,text}.py",
                 serves_properties=["C02", "C07", "C16"],
                 kind_free_text="requirement tables / operator transcriptions enumerated by TLC, evaluated row by row on the real code, judged by a TLC monitor pass"),
            dict(name="hub2", path="spec/Hub2.tla spec/MonHub2.tla harness/cmd/hub2 tools/check_hub2.py",
                 serves_properties=["C01", "C03", "C04", "C05", "C06", "C09", "C10", "C11", "C18"],
                 kind_free_text="TLC model checking of two hubs + TLC environment scripts on two real hubs over loopback TLS + TLC monitor: hub level at quiescence, SmeProps over the live history of every connection"),
            dict(name="timer", path="spec/Timer.tla spec/AbsTimer.tla spec/TimerGen.tla spec/MonTimer.tla harness/cmd/timer tools/check_timer.py",
                 serves_properties=["C14"], kind_free_text="TLC refinement check + script enumeration on real timers + TLC monitor pass"),
            dict(name="bad-input", path="spec/MdnsBadGen.tla spec/MonBad.tla spec/WsGen.tla spec/MonWs.tla harness/cmd/mdnsmgr harness/cmd/wsconn tools/check_bad.py",
                 serves_properties=["C08"],
                 kind_free_text="TLC-enumerated tables of awkward mDNS resolver inputs and of websocket frames a SHIP peer must never send, run on the real MdnsManager / websocket connection + TLC monitor pass"),
        ],
        checks=checks,
        notes="Exit 2 = infrastructure failure (never a verdict). Known findings: known_findings.txt. See DESIGN.md.",
        not_applicable=na)
    with open(os.path.join(V, "MANIFEST.json"), "w") as f:
        json.dump(man, f, indent=1)
        f.write("\n")


if __name__ == "__main__":
    main()
