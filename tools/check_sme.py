"""Checks decided with ShipSme (single endpoint and pair): C01 C03 C04 C06 C08 C09 C11(connection level).

   stage M  TLC, exhaustive: the model's own events satisfy the shared formulas (SmeProps) for every behaviour
            of the unrestricted adversary within the stated constants
   stage G  TLC emits behaviours: every edge of the reachable graph of a bounded-hostility configuration
            (BFS, one line per edge = one implementation test per transition) and -simulate behaviours
   stage R  harness/cmd/sme replays them into real ship.ShipConnection objects, compares every step with the
            specification's expectation (conformance) and records what the real code did
   stage V  TLC monitor pass (MonSme) evaluates the same formulas on the recorded observations: the verdict
"""
import json
import os
import time

import sme
import smegen
import vlib

ALL_PROPS = ["C01", "C03", "C04", "C06", "C08", "C09", "C11"]


def single_cfgs(tags, stored_list=("none",)):
    out = []
    for tag, role, paired, auto, wait in smegen.SINGLE_TRUST:
        if tag not in tags:
            continue
        for st in stored_list:
            name = tag + ("" if st == "none" else "_st" + st)
            out.append((name, dict(pair=False, role=role, paired=paired, auto=auto, wait=wait, stored=st)))
    return out


def pair_cfgs(trusts, ids, timely_list=(True,)):
    out = []
    for tag, paired, auto, wait in smegen.PAIR_TRUST:
        if tag not in trusts:
            continue
        for (sS, sC) in ids:
            for timely in timely_list:
                name = "P%s_%s%s_%s" % (tag, sS, sC, "t" if timely else "a")
                out.append((name, dict(pair=True, paired=paired, auto=auto, wait=wait, stored=sS, storedC=sC, timely=timely)))
    return out


def cfgd_of(name, kw):
    return sme.cfg_dict(name, kw["pair"], kw.get("role", "server"), kw.get("paired", False), kw.get("auto", False),
                        kw.get("wait", True), kw.get("stored", "none"), kw.get("storedC", "none"), kw.get("timely", True))


def plan(prop, tier):
    """returns (model configs, budget-generation configs, simulate configs) as lists of (name, kwargs, extra)"""
    q = tier == "quick"
    model, gen, sim = [], [], []
    if prop == "C01":
        tags = ["srvW", "srvN", "cli"] if q else ["cli", "srvP", "srvA", "srvW", "srvN"]
        for n, kw in single_cfgs(tags):
            model.append((n, kw, dict(maxfail=0 if q else 1, maxdata=1, invariants=["Inv_C01"])))
        for n, kw in single_cfgs(["cli", "srvP", "srvA", "srvW", "srvN"]):
            gen.append((n, kw, dict(budget=1 if q else 2, maxfail=1, maxdata=1 if q else 2)))
        for n, kw in single_cfgs(["srvW", "srvN", "srvA"]):
            sim.append((n, kw, dict(num=150 if q else 3000, depth=30, maxdata=2)))
    elif prop == "C04":
        tags = ["srvW", "cli"] if q else ["cli", "srvP", "srvA", "srvW", "srvN"]
        for n, kw in single_cfgs(tags):
            model.append((n, kw, dict(maxfail=1, maxdata=0 if q else 1, invariants=["Inv_C04"])))
        for n, kw in single_cfgs(["cli", "srvP", "srvW", "srvN"]):
            gen.append((n, kw, dict(budget=1 if q else 2, maxfail=1, maxdata=1)))
        for n, kw in single_cfgs(["cli", "srvP", "srvW"]):
            sim.append((n, kw, dict(num=150 if q else 3000, depth=30, maxfail=2, maxdata=1)))
    elif prop == "C08":
        tags = ["cli", "srvP"] if q else ["cli", "srvP", "srvA", "srvW", "srvN"]
        for n, kw in single_cfgs(tags):
            model.append((n, kw, dict(maxfail=0, maxdata=1, envclose=q is False, invariants=["Inv_C08"])))
        for n, kw in single_cfgs(["cli", "srvP", "srvW"]):
            gen.append((n, kw, dict(budget=1 if q else 2, maxfail=0, maxdata=1)))
        for n, kw in single_cfgs(["cli", "srvP", "srvW"]):
            sim.append((n, kw, dict(num=150 if q else 3000, depth=30, maxdata=1)))
    elif prop == "C09":
        st = ("none", "A", "B")
        for n, kw in single_cfgs(["cli", "srvP"], st):
            model.append((n, kw, dict(maxfail=0, maxdata=0, envclose=False, invariants=["Inv_C09"])))
        for n, kw in single_cfgs(["cli", "srvP", "srvW"] if q else ["cli", "srvP", "srvA", "srvW"], st):
            gen.append((n, kw, dict(budget=1 if q else 2, maxfail=0 if q else 1, maxdata=0, envclose=not q)))
        for n, kw in single_cfgs(["cli", "srvP"], ("A", "B")):
            sim.append((n, kw, dict(num=100 if q else 2000, depth=30, maxdata=0)))
    elif prop == "C11":
        tags = ["srvP", "cli"] if q else ["cli", "srvP", "srvA", "srvW", "srvN"]
        for n, kw in single_cfgs(tags):
            model.append((n, kw, dict(maxfail=0 if q else 1, maxdata=0 if q else 1, invariants=["Inv_C11"])))
        for n, kw in single_cfgs(["srvP", "cli"] if q else ["cli", "srvP", "srvW", "srvN"]):
            gen.append((n, kw, dict(budget=2, maxfail=1, maxdata=0 if q else 1)))
        for n, kw in single_cfgs(["cli", "srvP", "srvW"]):
            sim.append((n, kw, dict(num=150 if q else 3000, depth=30, maxdata=1)))
    elif prop == "C06":
        for n, kw in single_cfgs(["cli", "srvP"] if q else ["cli", "srvP", "srvA", "srvW"]):
            model.append((n, kw, dict(maxfail=0, maxdata=2 if q else 3, envclose=False, invariants=["Inv_C06"])))
        for n, kw in single_cfgs(["cli", "srvP", "srvW"]):
            gen.append((n, kw, dict(budget=1 if q else 2, maxfail=0, maxdata=3, envclose=not q)))
        # a peer that is cooperative but sends its data frames early: up to three of them at any point of the handshake
        for n, kw in single_cfgs(["cli", "srvP", "srvW"]):
            gen.append((n + "_early", kw, dict(budget=0 if q else 1, maxfail=0, maxdata=3, envclose=False, earlydata=True)))
        for n, kw in pair_cfgs(["P", "W"] if q else ["P", "A", "W"], [("none", "none")], (True,) if q else (True, False)):
            model.append((n, kw, dict(maxfail=0, maxdata=2, envclose=False, invariants=["Inv_C06_pair", "Inv_C06"])))
            sim.append((n, kw, dict(num=200 if q else 3000, depth=60, maxfail=0, maxdata=3, envclose=False)))
    elif prop == "C03":
        ids = smegen.PAIR_IDS
        for n, kw in pair_cfgs(["P", "A", "W", "N"], ids if not q else ids[:2], (True,) if q else (True, False)):
            model.append((n, kw, dict(maxfail=0 if q else 1, maxdata=0 if q else 1, envclose=False,
                                      invariants=["Inv_C03", "Inv_C01"])))
        for n, kw in pair_cfgs(["P", "A", "W", "N"], ids, (True, False)):
            sim.append((n, kw, dict(num=60 if q else 1500, depth=60, maxfail=1, maxdata=1, envclose=False)))
        # every edge of the pair graphs with at most one (thorough: two) non-cooperative steps: each interleaving of deliveries
        # with the user's approval / cancellation and a timer expiry is a schedule for the two real connections
        for n, kw in pair_cfgs(["P", "A", "W", "N"], ids, (True, False)):
            gen.append((n, kw, dict(budget=1 if q else 2, maxfail=0, maxdata=0, envclose=False)))
    else:
        raise vlib.Infra("no SME plan for " + prop)
    return model, gen, sim


MUTATED_CLASSES = ["init.ok", "hello.ready.ge30.absent", "hello.pending.ge30.absent", "hello.pending.absent.true",
                   "hello.aborted.absent.absent", "prot.announceMax", "prot.select", "proterr", "pin.none", "accreq", "acc.A",
                   "close.announce", "close.confirm", "data", "databad", "unknown"]


def fuzz_tests(sd, tier, seed):
    """C08: for every state a cooperative peer can bring a connection into (all edges of the budget-0 graph), deliver
    structured byte-level mutations of every message class; the harness derives mutant k of class m deterministically."""
    per = 6 if tier == "quick" else 60
    out = []
    for n, kw in single_cfgs(["cli", "srvP", "srvW", "srvN"]):
        name = "FZ_" + n
        args = dict(kw)
        args.update(defects=sme.DEFECTS, genmode="budget", budget=0, maxfail=0, maxdata=1, envclose=False, emit="edge",
                    action_constraints=["EmitEdge"])
        smegen.write(sd, name, **args)
        ts, _ = sme.generate(sd, name, cfgd_of(name, kw), timeout=600)
        seen = set()
        for t in ts:
            last = t["steps"][-1]
            key = json.dumps(last.get("x"), sort_keys=True)
            if key in seen or last["a"]["a"] == "Sleep":
                continue
            seen.add(key)
            prefix = [dict(a=s["a"], p=s.get("p", {})) for s in t["steps"]]
            for ci, m in enumerate(MUTATED_CLASSES):
                for k in range(per):
                    mut = dict(a=dict(a="Mutate", e="x", m=m, id=str(k * 16 + ci + seed * 1000)))
                    out.append(dict(cfg=t["cfg"], steps=prefix + [mut]))
    return out


def par_tests(sd, tier):
    """Two entry points of a connection called at the same time (ShipSme ParStep): in every state a cooperative peer can
    bring a connection into, every pair of enabled calls - a message, the timer's expiry, approve, cancel, close, a transport
    error - is started from two goroutines on the real connection. The races are real, so the table is repeated."""
    out = []
    for n, kw in single_cfgs(["cli", "srvP", "srvA", "srvW", "srvN"]):
        name = "PAR_" + n
        args = dict(kw)
        args.update(defects=sme.DEFECTS, genmode="budget", budget=0, maxfail=0, maxdata=1, envclose=False, emit="edge",
                    action_constraints=["EmitEdge"], par=True)
        smegen.write(sd, name, **args)
        ts, _ = sme.generate(sd, name, cfgd_of(name, kw), timeout=600)
        out += [t for t in ts if t["steps"][-1]["a"]["a"] == "Par"]
    reps = 3 if tier == "quick" else 40
    return [dict(cfg=t["cfg"], steps=t["steps"]) for _ in range(reps) for t in out]


def run_check(prop, tier):
    t0 = time.time()
    known = vlib.load_known()
    vlib.clear_replays(prop)
    seed = vlib.seed()
    model, gen, sim = plan(prop, tier)
    with vlib.Scratch(prop) as sc:
        sd = vlib.spec_dir(sc)
        binp = vlib.build_harness(sc, "sme")

        # ---- stage M: exhaustive model checking
        def mjob(n, kw, ex):
            name = "M_" + n
            args = dict(kw)
            args.update(defects=sme.DEFECTS, genmode="full", maxfail=ex.get("maxfail", 1), maxdata=ex.get("maxdata", 1),
                        envclose=ex.get("envclose", True), invariants=ex["invariants"])
            smegen.write(sd, name, **args)
            return lambda: (name, sme.model_check(sd, name, workers=4))
        tm = time.time()
        mres = sme.parallel([mjob(n, kw, ex) for n, kw, ex in model], par=4)
        print("stage M: %d configurations, %d states generated, %.0fs" % (len(mres), sum(r["states"] for _, r in mres), time.time() - tm))
        states = sum(r["states"] for _, r in mres)
        distinct = sum(r["distinct"] for _, r in mres)
        model_viol = [(n, r["violated"]) for n, r in mres if r["violated"]]
        if model_viol:
            # the specification itself violates the formula: a modelling error or an unrecorded defect of the design.
            # Verdicts come only from real-code observations (stage V); this is reported as infrastructure.
            raise vlib.Infra("stage M: the model violates %s in %s (not a verdict about the code; see DESIGN.md section 3)"
                             % (model_viol[0][1], model_viol[0][0]))

        # ---- stage G: behaviours
        def gjob(n, kw, ex):
            name = "G_" + n
            args = dict(kw)
            args.update(defects=sme.DEFECTS, genmode="budget", budget=ex["budget"], maxfail=ex.get("maxfail", 1),
                        maxdata=ex.get("maxdata", 1), envclose=ex.get("envclose", True), emit="edge",
                        action_constraints=["EmitEdge"], earlydata=ex.get("earlydata", False))
            smegen.write(sd, name, **args)
            return lambda: sme.generate(sd, name, cfgd_of(name, kw), timeout=2400, workers=3)

        def sjob(n, kw, ex, hf, k):
            name = "S_%s_h%d" % (n, hf)
            args = dict(kw)
            args.update(defects=sme.DEFECTS, genmode="sim", hostile_from=hf, maxfail=ex.get("maxfail", 1),
                        maxdata=ex.get("maxdata", 1), envclose=ex.get("envclose", True), emit="final",
                        simdepth=ex["depth"], action_constraints=["EmitFinal"], view=False)
            smegen.write(sd, name, **args)
            return lambda: sme.generate(sd, name, cfgd_of(name, kw), simulate="num=%d" % ex["num"], depth=ex["depth"],
                                        tlc_seed=seed * 1000 + k, timeout=1200)
        jobs = [gjob(n, kw, ex) for n, kw, ex in gen]
        k = 0
        hfs = (4, 8, 12, 16, 22)
        for n, kw, ex in sim:
            for j, hf in enumerate(hfs):
                k += 1
                if tier == "quick" and (j + k + seed) % 5 not in (0, 2):
                    continue       # quick: two of the five cooperative-phase lengths per configuration, rotating with the seed
                jobs.append(sjob(n, kw, ex, hf, k))
        tg = time.time()
        gres = sme.parallel(jobs, par=14)
        tests = []
        edges = 0
        for i, (ts, r) in enumerate(gres):
            if i < len(gen):
                edges += len(ts)
                ts = sme.drop_prefixes(ts)
            tests += ts
        if not tests:
            raise vlib.Infra("stage G produced no behaviours")
        nfuzz = 0
        if prop == "C08":
            fz = fuzz_tests(sd, tier, seed)
            nfuzz = len(fz)
            tests += fz
        npar = 0
        if prop != "C03":
            pt = par_tests(sd, tier)
            npar = len(pt)
            tests += pt
        print("stage G: %d behaviours (%d edges, %d concurrent-call steps), %.0fs" % (len(tests), edges, npar, time.time() - tg))

        # ---- stage R: replay into the real code
        obs, summ, out = sme.replay(sc, binp, tests, prop)
        print(out)

        # ---- stage V: monitor pass on the real observations
        tv = time.time()
        mons, mr = sme.monitor(sd, obs, prop)
        print("stage V: monitor pass over %d steps, %d flagged, %.0fs" % (summ["steps"], len(mons), time.time() - tv))
        byid = {t["id"]: t for t in tests}
        violations, known_hits, others = [], {}, {}
        for m in mons:
            p = m["key"][0]
            ks = vlib.key_str(m["key"][1:])
            if p != prop:
                if not byid[m["id"]]["cfg"]["name"].startswith("FZ_") and not vlib.classify(p, m["key"][1:], m.get("kf", []), known):
                    others.setdefault(p + "/" + ks, m["id"])
                continue
            kf = vlib.classify(prop, m["key"][1:], m.get("kf", []), known)
            if kf:
                known_hits[kf["key"]] = kf["text"]
                continue
            if len(violations) < 20:
                t = byid[m["id"]]
                path = vlib.save_replay(prop, "%s-%d" % (t["cfg"]["name"], m["id"]),
                                        dict(property=prop, key=m["key"], step=m["i"], test=t))
                violations.append((ks, path))
        notes = []
        if summ["divergences"]:
            notes.append("NONCONFORMANCE property=%s %d of %d replayed behaviours diverge from the specification, e.g. %s"
                         % (prop, summ["divergences"], summ["tests"], json.dumps(summ["divergence_samples"][0])))
        for k2, tid in sorted(others.items())[:10]:
            notes.append("formula of another property failed in this run: %s (behaviour %d); run that property's check" % (k2, tid))
        sample = tests[len(tests) // 2]
        coverage = dict(
            states=states, transitions=max(states, 1), distinct_states=distinct,
            traces_validated_against_impl=summ["tests"],
            samples=[dict(cfg=sample["cfg"], actions=[s["a"] for s in sample["steps"]])],
            model_configs=[n for n, _ in mres],
            edges_emitted=edges, mutation_runs=nfuzz, concurrent_call_steps=npar, concurrent_outcomes_not_sequential=summ.get("par_not_sequential", 0), behaviours_replayed=summ["tests"], steps_replayed=summ["steps"],
            nonconformance=summ["divergences"], monitor_violation_lines=len(mons),
            known_findings_hit=sorted(known_hits),
            exhaustive=False,
            rule="stage M: TLC exhaustive over the listed configurations (states/transitions); stage G: one behaviour per edge "
                 "of the bounded-hostility graphs plus -simulate behaviours; every behaviour is replayed into a real "
                 "ship.ShipConnection and judged by the TLC monitor pass")
        if prop == "C08":
            # mDNS side: awkward resolver inputs (MdnsBadGen.tla, MonBad.tla)
            import check_bad
            br = check_bad.collect("C08", tier)
            violations += br["violations"]
            known_hits.update(br["known_hits"])
            notes += br["notes"]
            coverage["mdns_resolver_inputs"] = br["coverage"]
            coverage["traces_validated_against_impl"] += br["coverage"]["rows"]
            # websocket side: frames a SHIP peer must never send (WsGen.tla peerBad rows, MonWs.tla)
            wr = check_bad.collect_ws("C08", tier)
            violations += wr["violations"]
            known_hits.update(wr["known_hits"])
            notes += wr["notes"]
            coverage["websocket_odd_frames"] = wr["coverage"]
            coverage["traces_validated_against_impl"] += wr["coverage"]["rows"]
        if prop == "C06":
            # websocket side: a transport that is slow for a while (the write queue full, writers waiting) loses nothing
            import check_bad
            wr = check_bad.collect_ws("C06", tier, events=("slowWrite",),
                                      rule="a transport write that takes 2.4 s with 1-3 writers and two messages each on a real "
                                           "ws.WebsocketConnection: every message handed to the open connection reaches the peer")
            violations += wr["violations"]
            known_hits.update(wr["known_hits"])
            notes += wr["notes"]
            coverage["websocket_slow_transport"] = wr["coverage"]
            coverage["traces_validated_against_impl"] += wr["coverage"]["rows"]
        if prop in ("C01", "C11"):
            # hub level: C11 - the end of a connection object and the registry / notifications; C01 - the hub holds a service
            # trusted (and answers its connections 'paired') only on the user's word (HubApi.tla, MonHub.tla)
            import check_hub
            hr = check_hub.collect(prop, tier)
            violations += hr["violations"]
            known_hits.update(hr["known_hits"])
            notes += hr["notes"]
            coverage["hub_level"] = hr["coverage"]
            coverage["states"] += hr["coverage"]["states"]
            coverage["transitions"] += hr["coverage"]["transitions"]
            coverage["traces_validated_against_impl"] += hr["coverage"]["traces_validated_against_impl"]
        if prop in ("C01", "C03", "C04", "C06", "C09", "C11"):
            # two real hubs: the history of every ShipConnection they create, recorded under the real goroutine schedule,
            # is judged with the same SmeProps operators; hub-level trust / SHIP id / pair formulas (Hub2.tla, MonHub2.tla)
            import check_hub2
            h2 = check_hub2.collect(prop, tier)
            violations += h2["violations"]
            known_hits.update(h2["known_hits"])
            notes += h2["notes"]
            coverage["two_real_hubs"] = h2["coverage"]
            coverage["traces_validated_against_impl"] += h2["coverage"]["traces_validated_against_impl"]
        vlib.write_evidence(prop, tier, "model_checking", coverage, time.time() - t0, len(violations),
                            assumptions=["handlers of one connection run one at a time (no intra-handler interleaving)",
                                         "harness fakes of the websocket writer and the hub behave like the real neighbours",
                                         "abstract message classes are concretised by a finite set of byte strings"])
        vlib.finish(prop, violations, known_hits, notes)
