#!/bin/bash
# seedall.sh [chains]   regression over every stored seeded change: the quick check of its property must report a VIOLATION.
# Results: /tmp/seedall/<name>.log and /tmp/seedall/summary.txt
chains=${1:-2}
mkdir -p /tmp/seedall; : > /tmp/seedall/summary.txt
ls -d /verif/seeded/*/ | while read d; do
  n=$(basename "$d"); p=$(python3 -c "import json;print(json.load(open('$d/meta.json'))['property'])")
  echo "$n $p"
done > /tmp/seedall/list.txt
run_chain() {
  # contiguous blocks of the (sorted) list: seeds of one property follow each other in ONE chain - the harnesses of one engine
  # do not run side by side (three hub harnesses at once exhaust the loopback ports)
  total=$(wc -l < /tmp/seedall/list.txt); per=$(( (total + chains - 1) / chains ))
  awk -v c=$1 -v per=$per 'int((NR - 1) / per) == c' /tmp/seedall/list.txt | while read n p; do
    /verif/tools/seedtest.sh /verif/seeded/$n/patch.diff quick $p > /tmp/seedall/$n.log 2>&1
    if grep -q "^VIOLATION property=$p" /tmp/seedall/$n.log; then r=DETECTED; elif grep -q "patch does not apply" /tmp/seedall/$n.log; then r=NOAPPLY; else r=MISSED; fi
    echo "$r $n" >> /tmp/seedall/summary.txt
  done
}
for c in $(seq 0 $((chains-1))); do run_chain $c & done
wait
sort /tmp/seedall/summary.txt
