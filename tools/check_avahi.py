"""C19: the Avahi provider across daemon restarts.
   stage M  TLC: Avahi.tla (announce bookkeeping, disconnect callback, reconnect loops, shutdown) satisfies the C19 invariants
   stage G  TLC -simulate: environment scripts (daemon down / up, announce, unannounce, shutdown, passages of time)
   stage R  harness/cmd/avahi runs them on the real AvahiProvider over a fake Avahi daemon (real 1 s reconnect sleeps)
   stage V  TLC monitor pass (MonAvahi.tla)"""
import json
import os
import time

import vlib

DEFECTS = []


def tlaset(xs):
    return "{" + ", ".join('"%s"' % x for x in xs) + "}"


def run_check(prop, tier):
    t0 = time.time()
    known = vlib.load_known()
    vlib.clear_replays(prop)
    q = tier == "quick"
    seed = vlib.seed()
    with vlib.Scratch(prop) as sc:
        sd = vlib.spec_dir(sc)
        binp = vlib.build_harness(sc, "avahi")
        with open(os.path.join(sd, "Avahi_M.cfg"), "w") as f:
            f.write("SPECIFICATION Spec\nCONSTANTS MaxDisc = %d\n MaxVer = 3\n MaxWaits = %d\n MaxBrowse = 2\n Defects = %s\n EmitMode = \"none\"\nVIEW View\n"
                    "INVARIANT P_C19_fresh\nINVARIANT P_C19_afterShutdown\nINVARIANT P_C19_shutdownFinal\nCHECK_DEADLOCK FALSE\n"
                    % (2 if q else 3, 3 if q else 5, tlaset(DEFECTS)))
        # liveness (a Shutdown that was called returns) on the full state, smaller constants, and its negative control: the
        # design in which the listener takes the provider's mutex after a resolve must violate it (else the formula is vacuous)
        for name, defects in (("Avahi_L", DEFECTS), ("Avahi_LN", DEFECTS + ["resolveTakesMutex"])):
            with open(os.path.join(sd, name + ".cfg"), "w") as f:
                f.write("SPECIFICATION Spec\nCONSTANTS MaxDisc = 1\n MaxVer = 1\n MaxWaits = 2\n MaxBrowse = 1\n Defects = %s\n EmitMode = \"none\"\n"
                        "PROPERTY L_C19_shutdownReturns\nCHECK_DEADLOCK FALSE\n" % tlaset(defects))
        lv = vlib.tlc(sd, "Avahi", cfg="Avahi_L.cfg", workers=4, timeout=1800)
        if lv["error"] or lv["violated"]:
            raise vlib.Infra("stage M: Avahi liveness: %s\n%s" % (lv["violated"] or lv["error"], lv["tail"]))
        ln = vlib.tlc(sd, "Avahi", cfg="Avahi_LN.cfg", workers=4, timeout=1800)
        if not ln["violated"]:
            raise vlib.Infra("stage M: the negative control of L_C19_shutdownReturns was not violated")
        m = vlib.tlc(sd, "Avahi", cfg="Avahi_M.cfg", workers=4, timeout=1800)
        if m["error"] and not m["violated"]:
            raise vlib.Infra("TLC error in Avahi: %s\n%s" % (m["error"], m["tail"]))
        if os.environ.get("VERIF_SKIP_M"):
            print("stage M result ignored on request:", m["violated"])
        elif m["violated"]:
            raise vlib.Infra("stage M: Avahi with Defects=%s violates %s (not a verdict about the code)" % (DEFECTS, m["violated"]))
        print("stage M: Avahi, %d states generated, %d distinct" % (m["states"], m["distinct"]))
        with open(os.path.join(sd, "Avahi_G.cfg"), "w") as f:
            f.write("SPECIFICATION Spec\nCONSTANTS MaxDisc = 2\n MaxVer = 3\n MaxWaits = 3\n MaxBrowse = 2\n Defects = {}\n EmitMode = \"final\"\n"
                    "ACTION_CONSTRAINT Emit\nCHECK_DEADLOCK FALSE\n")
        g = vlib.tlc(sd, "Avahi", cfg="Avahi_G.cfg", workers=1, timeout=900, simulate="num=%d" % (600 if q else 8000), depth=14, tlc_seed=seed)
        if g["error"]:
            raise vlib.Infra("TLC error generating from Avahi: %s\n%s" % (g["error"], g["tail"]))
        scripts, seen = [], set()
        for ops in vlib.tlc_lines(g["out_path"], "TEST"):
            key = json.dumps(ops)
            if key not in seen and any(o["op"] in ("DaemonDown", "BrowseAdd") for o in ops):
                seen.add(key)
                scripts.append(dict(ops=ops))
        limit = 400 if q else 6000
        scripts = scripts[:limit]
        for i, s in enumerate(scripts):
            s["id"] = i
        sp = os.path.join(sc, "scripts.ndjson")
        with open(sp, "w") as f:
            for s in scripts:
                f.write(json.dumps(s) + "\n")
        print("stage G: %d scripts" % len(scripts))
        if not scripts:
            raise vlib.Infra("no scripts generated")
        obs = os.path.join(sc, "obs.ndjson")
        rc, out = vlib.run([binp, "-scripts", sp, "-obs", obs, "-summary", os.path.join(sc, "sum.json")], timeout=3000)
        if rc != 0:
            raise vlib.Infra("harness avahi failed:\n" + out[-3000:])
        print(out.strip())
        with open(os.path.join(sd, "MonAvahiRun.tla"), "w") as f:
            f.write("---- MODULE MonAvahiRun ----\nEXTENDS MonAvahi\n====\n")
        with open(os.path.join(sd, "MonAvahiRun.cfg"), "w") as f:
            f.write('SPECIFICATION Spec\nCONSTANT ObsFile = "%s"\nPOSTCONDITION Done\nCHECK_DEADLOCK FALSE\n' % obs)
        r = vlib.tlc(sd, "MonAvahiRun", workers=1, timeout=1800)
        if r["error"]:
            raise vlib.Infra("monitor pass failed: %s\n%s" % (r["error"], r["tail"]))
        byid = {s["id"]: s for s in scripts}
        violations, known_hits = [], {}
        nmon = 0
        for mon in vlib.tlc_lines(r["out_path"], "MON"):
            nmon += 1
            kf = vlib.classify(prop, mon["key"][1:2], [], known)
            if kf:
                known_hits[kf["key"]] = kf["text"]
            elif len(violations) < 15:
                path = vlib.save_replay(prop, "avahi-%d" % mon["id"], dict(property=prop, key=mon["key"], avahiscript=byid[mon["id"]]))
                violations.append((vlib.key_str(mon["key"][1:2]), path))
        cov = dict(states=m["states"], transitions=m["states"], distinct_states=m["distinct"], traces_validated_against_impl=len(scripts),
                   samples=[scripts[len(scripts) // 2]], scripts=len(scripts), monitor_violation_lines=nmon,
                   known_findings_hit=sorted(known_hits), exhaustive=False,
                   rule="stage M exhaustive over daemon down/up, announce/unannounce, shutdown and time passages within the bounds; "
                        "simulated scripts run on the real AvahiProvider over a fake daemon with the real 1 s reconnect sleeps")
        vlib.write_evidence(prop, tier, "model_checking", cov, time.time() - t0, len(violations),
                            assumptions=["the Avahi daemon is a fake behind avahi.ServerInterface (8 methods the provider uses)",
                                         "environment operations happen either within the loop's 1 s sleep or after it"])
        vlib.finish(prop, violations, known_hits, [])
