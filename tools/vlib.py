"""Shared plumbing of the checks: scratch directories, TLC runs, harness builds, known findings,
evidence files and the exit protocol (0 held / 1 VIOLATION / 2 infrastructure)."""
import json
import os
import re
import shutil
import subprocess
import sys
import tempfile
import time

VERIF = os.path.dirname(os.path.dirname(os.path.abspath(__file__)))
REPO = os.environ.get("VERIF_REPO", "/repo")
SPEC = os.path.join(VERIF, "spec")
HARNESS = os.path.join(VERIF, "harness")
# VERIF_EVIDENCE: runs against a seeded checkout (VERIF_REPO) write their evidence elsewhere, never into /verif/evidence
EVIDENCE = os.environ.get("VERIF_EVIDENCE") or os.path.join(VERIF, "evidence")
REPLAY = os.path.join(EVIDENCE, "replay")
KNOWN = os.path.join(VERIF, "known_findings.txt")

GOENV = dict(os.environ, GOFLAGS="-mod=mod", GOPROXY="off", GOSUMDB="off", GOTOOLCHAIN="local")
STATE_DEQUE = "-Dtlc2.tool.queue.IStateQueue=StateDeque"


class Infra(Exception):
    """an infrastructure failure: never a verdict about the code (exit 2)"""


def seed():
    try:
        return int(os.environ.get("VERIF_SEED", "1"))
    except ValueError:
        return 1


class Scratch:
    """a scratch directory outside /repo and /verif, removed afterwards"""

    def __init__(self, tag):
        self.tag = tag

    def __enter__(self):
        base = os.environ.get("TMPDIR", "/tmp")
        self.path = tempfile.mkdtemp(prefix="verif-%s-" % self.tag, dir=base)
        return self.path

    def __exit__(self, *a):
        if os.environ.get("VERIF_KEEP"):
            print("NOTE scratch kept at", self.path)
        else:
            shutil.rmtree(self.path, ignore_errors=True)


def spec_dir(scratch, name="spec"):
    d = os.path.join(scratch, name)
    os.makedirs(d, exist_ok=True)
    for f in os.listdir(SPEC):
        if f.endswith(".tla") or f.endswith(".cfg"):
            shutil.copy(os.path.join(SPEC, f), d)
    return d


import itertools
import threading
_tlc_counter = itertools.count(1)     # TLC runs are started from several threads: the counter must not hand out a number twice
_tlc_lock = threading.Lock()


def tlc(specdir, module, cfg=None, workers="auto", timeout=900, simulate=None, depth=None, tlc_seed=None,
        deque=False, extra=(), out_file=None):
    """Runs TLC; returns dict(out, states, distinct, error, violated, seconds). Output goes to a file
    (out_file or a temporary one in specdir) because emission configs print a lot."""
    with _tlc_lock:
        run_no = next(_tlc_counter)
    meta = os.path.join(specdir, "meta-%d-%d" % (os.getpid(), run_no))
    cmd = ["timeout", str(timeout), "tlc", "-noGenerateSpecTE", "-metadir", meta, "-workers", str(workers)]
    if simulate is not None:
        cmd += ["-simulate", simulate]
    if depth is not None:
        cmd += ["-depth", str(depth)]
    if tlc_seed is not None:
        cmd += ["-seed", str(tlc_seed)]
    cmd += list(extra)
    cmd += ["-config", cfg or (module + ".cfg"), module + ".tla"]
    env = dict(os.environ)
    # deep recursion (the monitor modules fold recursive operators over long recorded histories) needs more than the default
    # thread stack: a StackOverflowError is an infrastructure failure, never a verdict
    if "-Xss" not in env.get("JAVA_TOOL_OPTIONS", ""):
        env["JAVA_TOOL_OPTIONS"] = (env.get("JAVA_TOOL_OPTIONS", "") + " -Xss512m").strip()
    # TLC leaves an (empty) directory in java.io.tmpdir per run: keep it inside the scratch copy, which is removed
    if "java.io.tmpdir" not in env["JAVA_TOOL_OPTIONS"]:
        env["JAVA_TOOL_OPTIONS"] += " -Djava.io.tmpdir=" + specdir
    if deque:
        env["JAVA_TOOL_OPTIONS"] = (env.get("JAVA_TOOL_OPTIONS", "") + " " + STATE_DEQUE).strip()
    out_path = out_file or os.path.join(specdir, "tlc-%d-%d.out" % (os.getpid(), run_no))
    t0 = time.time()
    with open(out_path, "w") as f:
        p = subprocess.run(cmd, cwd=specdir, stdout=f, stderr=subprocess.STDOUT, env=env)
    dt = time.time() - t0
    shutil.rmtree(meta, ignore_errors=True)
    res = dict(out_path=out_path, rc=p.returncode, seconds=dt, states=0, distinct=0, error=None, violated=None)
    tail = []
    with open(out_path, errors="replace") as f:
        for line in f:
            if line.startswith("<<"):
                continue
            tail.append(line)
            if len(tail) > 400:
                tail.pop(0)
            m = re.match(r"(\d+) states generated, (\d+) distinct states found", line)
            if m:
                res["states"], res["distinct"] = int(m.group(1)), int(m.group(2))
            m = re.match(r"Error: Invariant (\S+) is violated", line)
            if m:
                res["violated"] = m.group(1)
            elif re.match(r"Error: Action property .* is violated|Error: Temporal propert(y|ies) .*(was|were) violated", line):
                res["violated"] = "temporal-or-action-property"
            elif line.startswith("Error: The behavior up to this point") or line.startswith("Error: The following behavior"):
                pass
            elif line.startswith("Error:") and res["error"] is None and res["violated"] is None:
                res["error"] = line.strip()
    res["tail"] = "".join(tail[-60:])
    if p.returncode == 124:
        raise Infra("TLC timed out after %ds on %s" % (timeout, module))
    if simulate is None and res["violated"] is None and res["error"] is None and res["states"] == 0:
        raise Infra("TLC produced no state count for %s:\n%s" % (module, res["tail"]))
    return res


SKIPPED_LINES = [0]


def tlc_lines(out_path, tag):
    """yields the JSON payloads of <<"TAG", "json">> lines TLC printed. Several TLC workers print concurrently: two records
    may share a line, and a record torn by another one is skipped (counted in SKIPPED_LINES, reported by finish())"""
    pat = re.compile(r'<<"' + tag + r'", "(.*?)(?<!\\)">>')
    with open(out_path, errors="replace") as f:
        for line in f:
            if '<<"' + tag not in line:
                continue
            found = False
            for m in pat.finditer(line):
                found = True
                try:
                    yield json.loads(json.loads('"' + m.group(1) + '"'))
                except ValueError:
                    SKIPPED_LINES[0] += 1
            if not found:
                SKIPPED_LINES[0] += 1


def build_harness(scratch, cmd):
    """builds harness/cmd/<cmd> against /repo's current working tree with the verif tag"""
    h = os.path.join(scratch, "harness")
    if not os.path.isdir(h):
        shutil.copytree(HARNESS, h)
        shutil.copy(os.path.join(REPO, "go.sum"), os.path.join(h, "go.sum"))
        if REPO != "/repo":
            p = os.path.join(h, "go.mod")
            s = open(p).read().replace("=> /repo", "=> " + REPO)
            open(p, "w").write(s)
    binp = os.path.join(scratch, "bin-" + cmd)
    p = subprocess.run(["go", "build", "-tags", "verif", "-o", binp, "./cmd/" + cmd], cwd=h, env=GOENV,
                       stdout=subprocess.PIPE, stderr=subprocess.STDOUT, text=True)
    if p.returncode != 0:
        raise Infra("building harness %s against %s failed:\n%s" % (cmd, REPO, p.stdout[-4000:]))
    return binp


def run(cmd, timeout, cwd=None, env=None):
    try:
        p = subprocess.run(cmd, cwd=cwd, env=env or GOENV, stdout=subprocess.PIPE, stderr=subprocess.STDOUT, text=True,
                           timeout=timeout)
    except subprocess.TimeoutExpired:
        raise Infra("%s timed out after %ds" % (cmd[0], timeout))
    return p.returncode, p.stdout


def library_crash(out):
    """If a harness died from a Go panic raised on a goroutine running library code (not harness code), returns a short
    description, else None. Such a crash is a verdict about the code (it takes the application down); a panic in the
    harness' own code is an infrastructure failure."""
    i = out.find("panic: ")
    if i < 0:
        i = out.find("fatal error: ")
    if i < 0:
        return None
    block = out[i:].split("\n\ngoroutine ")[0:2]
    first = "\n".join(block)
    frames = [l.strip() for l in first.splitlines() if l.startswith("github.com/") or l.startswith("main.") or l.startswith("verifharness")]
    lib = [f for f in frames if f.startswith("github.com/enbility/ship-go/")]
    if not lib:
        return None
    msg = out[i:].splitlines()[0][:160]
    return "%s in %s" % (msg, lib[0].split("(")[0] if "(" in lib[0] else lib[0])


# ------------------------------------------------------------------ known findings

def load_known():
    """known_findings.txt lines:
         finding: property=C03 key=<name> pattern=<regex on the violation key> [when=<trace flag>] -- text
         fixed: property=C08 <commit> <what failed>          (suppresses nothing)"""
    out = []
    if not os.path.exists(KNOWN):
        return out
    for line in open(KNOWN):
        line = line.strip()
        if not line.startswith("finding:"):
            continue
        m = re.match(r"finding:\s+property=(\S+)\s+key=(\S+)\s+pattern=(\S+)(?:\s+when=(\S+))?\s+--\s+(.*)$", line)
        if not m:
            raise Infra("malformed known finding: " + line)
        out.append(dict(prop=m.group(1), key=m.group(2), pattern=re.compile(m.group(3)), when=m.group(4), text=m.group(5)))
    return out


def key_str(key):
    return "/".join(str(k) for k in key)


def classify(prop, key, flags, known):
    """returns the known finding a violation key falls under, or None"""
    ks = key_str(key)
    for k in known:
        if k["prop"] == prop and k["pattern"].search(ks) and (k["when"] is None or k["when"] in flags):
            return k
    return None


# ------------------------------------------------------------------ evidence / exit protocol

def write_evidence(prop, tier, level, coverage, wall_s, violations, assumptions=(), extra=None):
    os.makedirs(EVIDENCE, exist_ok=True)
    ev = dict(property_id=prop, tier=tier, seed=seed(), level=level, coverage=coverage,
              assumptions=list(assumptions), wall_s=round(wall_s, 2), violations=violations)
    if extra:
        ev.update(extra)
    tmp = os.path.join(EVIDENCE, prop + ".json.tmp")
    with open(tmp, "w") as f:
        json.dump(ev, f, indent=1, sort_keys=True)
        f.write("\n")
    os.replace(tmp, os.path.join(EVIDENCE, prop + ".json"))


def clear_replays(prop):
    if os.path.isdir(REPLAY):
        for f in os.listdir(REPLAY):
            if f.startswith(prop + "-"):
                os.remove(os.path.join(REPLAY, f))


def save_replay(prop, name, obj):
    os.makedirs(REPLAY, exist_ok=True)
    path = os.path.join(REPLAY, "%s-%s.json" % (prop, name))
    with open(path, "w") as f:
        json.dump(obj, f, indent=1)
        f.write("\n")
    return path


def finish(prop, violations, known_hits, notes=()):
    """violations: list of (key string, replay path); known_hits: dict key name -> text"""
    for n in notes:
        print("NOTE", n)
    if SKIPPED_LINES[0]:
        print("NOTE %d TLC output records were torn by concurrent printing and skipped" % SKIPPED_LINES[0])
    for k, text in sorted(known_hits.items()):
        print("KNOWN-FINDING: property=%s %s -- %s" % (prop, k, text))
    if violations:
        seen = set()
        for ks, path in violations:
            if ks in seen:
                continue
            seen.add(ks)
            print("VIOLATION property=%s replay=%s key=%s" % (prop, path, ks))
        sys.exit(1)
    print("OK property=%s held on everything explored" % prop)
    sys.exit(0)


def main_guard(fn):
    try:
        fn()
    except Infra as e:
        print("INFRA", e)
        sys.exit(2)
    except SystemExit:
        raise
    except BaseException:
        # a defect of the machinery is never a verdict
        import traceback
        print("INFRA unexpected failure of the checking machinery:\n" + traceback.format_exc())
        sys.exit(2)
