"""Generates ShipSme configuration modules (<name>.tla + <name>.cfg) into a directory.

One source of truth (spec/ShipSme.tla, spec/SmeProps.tla); a configuration only fixes constants,
the generation mode and which invariants / emission constraints are active."""
import os

ALPHABET = r'''
WClasses == {"absent", "lt1", "mid", "ge30"}
Alphabet ==
    {[t |-> "init", v |-> v] : v \in {"ok", "badtype", "badvalue"}}
    \cup {[t |-> "hello", ph |-> "ready", w |-> w, p |-> "absent"] : w \in WClasses}
    \cup {[t |-> "hello", ph |-> "pending", w |-> w, p |-> p] : w \in WClasses, p \in {"absent", "true", "false"}}
    \cup {[t |-> "hello", ph |-> ph, w |-> "absent", p |-> "absent"] : ph \in {"aborted", "bad"}}
    \cup {[t |-> "prot", k |-> k] : k \in {"announceMax", "select", "selectBad", "selectEmptyFormat"}}
    \cup {[t |-> "proterr"]}
    \cup {[t |-> "pin", v |-> v] : v \in {"none", "required", "bad"}}
    \cup {[t |-> "accreq"]}
    \cup {[t |-> "acc", id |-> id] : id \in {"A", "B", "a", "empty", "missing", "illtyped"}}     \* "a": the id A in another letter case - a different id
    \cup {[t |-> "close", ph |-> ph] : ph \in {"announce", "confirm", "other"}}
    \cup {[t |-> "data"], [t |-> "databad"], [t |-> "garbage"], [t |-> "unknown"]}
'''


def b(x):
    return "TRUE" if x else "FALSE"


def tlaset(xs):
    return "{" + ", ".join('"%s"' % x for x in sorted(xs)) + "}"


def write(outdir, name, *, pair, role="server", paired=False, auto=False, wait=True,
          stored="none", storedC="none", defects=(), maxfail=1, maxdata=2, timely=True,
          envclose=True, maxsleeps=2, genmode="full", budget=0, hostile_from=0, emit="none", simdepth=0,
          invariants=(), action_constraints=(), view=True, known_model_keys=None, par=False, earlydata=False):
    if pair:
        mod = f'''---- MODULE {name} ----
EXTENDS ShipSme
c_Endpoints == {{"c", "s"}}
c_RoleOf == [e \\in c_Endpoints |-> IF e = "c" THEN "client" ELSE "server"]
c_Paired == [e \\in c_Endpoints |-> IF e = "c" THEN TRUE ELSE {b(paired)}]
c_Auto == [e \\in c_Endpoints |-> IF e = "c" THEN FALSE ELSE {b(auto)}]
c_Wait == [e \\in c_Endpoints |-> IF e = "c" THEN TRUE ELSE {b(wait)}]
c_Stored == [e \\in c_Endpoints |-> IF e = "c" THEN "{storedC}" ELSE "{stored}"]
c_MyId == [e \\in c_Endpoints |-> IF e = "c" THEN "A" ELSE "B"]
c_Adv == {{}}
c_Defects == {tlaset(defects)}
'''
    else:
        mod = f'''---- MODULE {name} ----
EXTENDS ShipSme
{ALPHABET}
c_Endpoints == {{"x"}}
c_RoleOf == [e \\in c_Endpoints |-> "{role}"]
c_Paired == [e \\in c_Endpoints |-> {b(paired)}]
c_Auto == [e \\in c_Endpoints |-> {b(auto)}]
c_Wait == [e \\in c_Endpoints |-> {b(wait)}]
c_Stored == [e \\in c_Endpoints |-> "{stored}"]
c_MyId == [e \\in c_Endpoints |-> "B"]
c_Adv == Alphabet
c_Defects == {tlaset(defects)}
'''
    if known_model_keys is not None:
        mod += "c_Known == {" + ", ".join(known_model_keys) + "}\n"
    mod += "====\n"
    cfg = f'''SPECIFICATION Spec
CONSTANTS
 Endpoints <- c_Endpoints
 Pair = {b(pair)}
 RoleOf <- c_RoleOf
 Paired0 <- c_Paired
 Auto0 <- c_Auto
 AllowWait0 <- c_Wait
 Stored0 <- c_Stored
 MyId <- c_MyId
 Defects <- c_Defects
 MaxFail = {maxfail}
 MaxData = {maxdata}
 AdvMsgs <- c_Adv
 TimelyMode = {b(timely)}
 EnvClose = {b(envclose)}
 MaxSleeps = {maxsleeps}
 GenMode = "{genmode}"
 HostileBudget = {budget}
 HostileFrom = {hostile_from}
 ParMode = {b(par)}
 EarlyData = {b(earlydata)}
 EmitMode = "{emit}"
 SimDepth = {simdepth}
'''
    if known_model_keys is not None:
        cfg += " KnownModelKeys <- c_Known\n"
    if view:
        cfg += "VIEW View\n"
    for i in invariants:
        cfg += f"INVARIANT {i}\n"
    for a in action_constraints:
        cfg += f"ACTION_CONSTRAINT {a}\n"
    cfg += "CHECK_DEADLOCK FALSE\n"
    with open(os.path.join(outdir, name + ".tla"), "w") as f:
        f.write(mod)
    with open(os.path.join(outdir, name + ".cfg"), "w") as f:
        f.write(cfg)
    return name


# trust configurations of a single endpoint: (tag, role, paired, auto, wait)
SINGLE_TRUST = [
    ("cli", "client", True, False, True),
    ("srvP", "server", True, False, True),
    ("srvA", "server", False, True, False),
    ("srvW", "server", False, False, True),
    ("srvN", "server", False, False, False),
]
# pair: trust of the server side (tag, paired, auto, wait)
PAIR_TRUST = [("P", True, False, True), ("A", False, True, False), ("W", False, False, True), ("N", False, False, False)]
# (server's stored id for the client, client's stored id for the server); client presents A, server presents B
PAIR_IDS = [("none", "none"), ("A", "B"), ("B", "B"), ("A", "A")]
