"""C16: what the manager announces is what a ship-go browser reads back; the QR text parses back.
   stage M/G  TLC enumerates the configuration table of MdnsText.tla (abstract strings hitting the 32 byte limit at every
              offset of every rune width, the characters '=' ';' ':', category lists, the auto-accept flag)
   stage R    harness/cmd/mdnstext evaluates every row on the real manager, TXT parser and entry processing
   stage V    TLC monitor pass (MonText.tla): the requirement operators on the real outputs"""
import json
import os
import time

import vlib


def run_check(prop, tier):
    t0 = time.time()
    known = vlib.load_known()
    vlib.clear_replays(prop)
    with vlib.Scratch(prop) as sc:
        sd = vlib.spec_dir(sc)
        binp = vlib.build_harness(sc, "mdnstext")
        with open(os.path.join(sd, "MdnsTextGen.cfg"), "w") as f:
            f.write("SPECIFICATION Spec\nCHECK_DEADLOCK FALSE\n")
        g = vlib.tlc(sd, "MdnsTextGen", workers=1, timeout=900)
        if g["error"]:
            raise vlib.Infra("TLC error in MdnsTextGen: %s\n%s" % (g["error"], g["tail"]))
        rows = list(vlib.tlc_lines(g["out_path"], "TEST"))
        rows.sort(key=lambda r: json.dumps(r, sort_keys=True))
        for i, r in enumerate(rows):
            r["id"] = i
        rp = os.path.join(sc, "rows.ndjson")
        with open(rp, "w") as f:
            for r in rows:
                f.write(json.dumps(r) + "\n")
        print("stage G: %d rows" % len(rows))
        obs = os.path.join(sc, "obs.ndjson")
        rc, out = vlib.run([binp, "-rows", rp, "-obs", obs], timeout=1800)
        if rc != 0:
            crash = vlib.library_crash(out)
            if crash:
                path = vlib.save_replay(prop, "process-crash", dict(property=prop, key=["process-crash", crash], output_tail=out[-4000:]))
                vlib.finish(prop, [("process-crash/" + crash, path)], {}, [])
            raise vlib.Infra("harness mdnstext failed:\n" + out[-3000:])
        print(out.strip())
        with open(os.path.join(sd, "MonTextRun.tla"), "w") as f:
            f.write("---- MODULE MonTextRun ----\nEXTENDS MonText\n====\n")
        with open(os.path.join(sd, "MonTextRun.cfg"), "w") as f:
            f.write('INIT MInit\nNEXT MNext\nCONSTANT ObsFile = "%s"\nPOSTCONDITION Done\nCHECK_DEADLOCK FALSE\n' % obs)
        r = vlib.tlc(sd, "MonTextRun", workers=1, timeout=1800)
        if r["error"]:
            raise vlib.Infra("monitor pass failed: %s\n%s" % (r["error"], r["tail"]))
        byid = {x["id"]: x for x in rows}
        violations, known_hits = [], {}
        nmon = 0
        seen = set()
        for mon in vlib.tlc_lines(r["out_path"], "MON"):
            nmon += 1
            ks = vlib.key_str(mon["key"][1:])
            kf = vlib.classify(prop, mon["key"][1:], [], known)
            if kf:
                known_hits[kf["key"]] = kf["text"]
            elif ks not in seen and len(violations) < 20:
                seen.add(ks)
                path = vlib.save_replay(prop, "row-%d" % mon["id"], dict(property=prop, key=mon["key"], textrow=byid[mon["id"]]))
                violations.append((ks, path))
        # ---- the stateful part: sequences of announce / unannounce / SetAutoAccept with provider failures (MdnsAnnounce.tla)
        maxops = 5 if tier == "quick" else 6
        with open(os.path.join(sd, "MdnsAnnounce.cfg"), "w") as f:
            f.write('SPECIFICATION Spec\nCONSTANTS MaxOps = %d\n EmitMode = "edge"\nINVARIANT P_C16_current\nINVARIANT P_belief\n'
                    'ACTION_CONSTRAINT Emit\nCHECK_DEADLOCK FALSE\n' % maxops)
        a = vlib.tlc(sd, "MdnsAnnounce", workers=1, timeout=1800)
        if a["error"] or a["violated"]:
            raise vlib.Infra("MdnsAnnounce: %s\n%s" % (a["violated"] or a["error"], a["tail"]))
        seqs = [h for h in vlib.tlc_lines(a["out_path"], "TEST") if len(h) == maxops]
        os.remove(a["out_path"])
        sp = os.path.join(sc, "seqs.ndjson")
        with open(sp, "w") as f:
            for i, h in enumerate(seqs):
                f.write(json.dumps(dict(id=i, ops=h)) + "\n")
        aobs = os.path.join(sc, "aobs.ndjson")
        rc, out = vlib.run([binp, "-seqs", sp, "-obs", aobs], timeout=1800)
        if rc != 0:
            crash = vlib.library_crash(out)
            if crash:
                path = vlib.save_replay(prop, "process-crash", dict(property=prop, key=["process-crash", crash], output_tail=out[-4000:]))
                vlib.finish(prop, [("process-crash/" + crash, path)], {}, [])
            raise vlib.Infra("harness mdnstext (sequences) failed:\n" + out[-3000:])
        print("stage M/G: MdnsAnnounce %d states, %d operation sequences of length %d; %s" % (a["distinct"], len(seqs), maxops, out.strip()))
        with open(os.path.join(sd, "MonAnnRun.tla"), "w") as f:
            f.write("---- MODULE MonAnnRun ----\nEXTENDS MonAnn\n====\n")
        with open(os.path.join(sd, "MonAnnRun.cfg"), "w") as f:
            f.write('SPECIFICATION Spec\nCONSTANT ObsFile = "%s"\nPOSTCONDITION Done\nCHECK_DEADLOCK FALSE\n' % aobs)
        r2 = vlib.tlc(sd, "MonAnnRun", workers=1, timeout=1800)
        if r2["error"]:
            raise vlib.Infra("monitor pass (sequences) failed: %s\n%s" % (r2["error"], r2["tail"]))
        for mon in vlib.tlc_lines(r2["out_path"], "MON"):
            nmon += 1
            ks = vlib.key_str(mon["key"][1:])
            kf = vlib.classify(prop, mon["key"][1:], [], known)
            if kf:
                known_hits[kf["key"]] = kf["text"]
            elif ks not in seen and len(violations) < 20:
                seen.add(ks)
                path = vlib.save_replay(prop, "seq-%d" % mon["id"], dict(property=prop, key=mon["key"], step=mon["i"], annseq=seqs[mon["id"]]))
                violations.append((ks, path))
        cov = dict(states=max(g["states"], 1) + a["states"], transitions=max(g["states"], 1) + a["states"], traces_validated_against_impl=len(rows) + len(seqs),
                   operation_sequences=len(seqs),
                   samples=[rows[len(rows) // 2]], rows=len(rows), monitor_violation_lines=nmon, known_findings_hit=sorted(known_hits),
                   exhaustive=True,
                   rule="the whole MdnsText table: 5 fields x 9 ASCII prefix lengths (0, 3, 27..33) x all tails of up to two atoms from "
                        "{1,2,3,4-byte runes, '=', ';', ':'}, plus category lists and the auto-accept flag; and every sequence of "
                        "announce / unannounce / SetAutoAccept calls of the stated length with provider announcements that may fail")
        vlib.write_evidence(prop, tier, "model_checking", cov, time.time() - t0, len(violations),
                            assumptions=["abstract atoms are concretised as x, e-acute, euro sign, an emoji, '=', ';', ':'",
                                         "the QR text is parsed by the harness with the SHIP;KEY:VALUE;..ENDSHIP; grammar"])
        vlib.finish(prop, violations, known_hits, [])
