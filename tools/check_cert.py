"""C02: peer identity. CertGate.tla is the decision table (requirement); every row is evaluated on a real hub.Hub
(inbound TLS/websocket clients with forged certificates, an adversarial server for outbound dials, the certificate generator)
and judged by the TLC monitor pass (MonCert.tla)."""
import json
import os
import time

import vlib


def run_check(prop, tier):
    t0 = time.time()
    known = vlib.load_known()
    vlib.clear_replays(prop)
    with vlib.Scratch(prop) as sc:
        sd = vlib.spec_dir(sc)
        binp = vlib.build_harness(sc, "certgate")
        with open(os.path.join(sd, "CertGateGen.cfg"), "w") as f:
            f.write("SPECIFICATION Spec\nCONSTANT FullLens = %s\nCHECK_DEADLOCK FALSE\n" % ("FALSE" if tier == "quick" else "TRUE"))
        g = vlib.tlc(sd, "CertGateGen", workers=1, timeout=600)
        if g["error"]:
            raise vlib.Infra("TLC error in CertGateGen: %s\n%s" % (g["error"], g["tail"]))
        rows = list(vlib.tlc_lines(g["out_path"], "TEST"))
        rows.sort(key=lambda r: json.dumps(r, sort_keys=True))
        reps = 1 if tier == "quick" else 3
        rows = [dict(r) for _ in range(reps) for r in rows]
        for i, r in enumerate(rows):
            r["id"] = i
        rp = os.path.join(sc, "rows.ndjson")
        with open(rp, "w") as f:
            for r in rows:
                f.write(json.dumps(r) + "\n")
        print("stage G: %d rows (table sanity checked by TLC)" % len(rows))
        obs = os.path.join(sc, "obs.ndjson")
        rc, out = vlib.run([binp, "-rows", rp, "-obs", obs], timeout=2400)
        if rc != 0:
            crash = vlib.library_crash(out)
            if crash:
                path = vlib.save_replay(prop, "process-crash", dict(property=prop, key=["process-crash", crash], output_tail=out[-4000:]))
                vlib.finish(prop, [("process-crash/" + crash, path)], {}, [])
            raise vlib.Infra("harness certgate failed:\n" + out[-3000:])
        print(out.strip().splitlines()[-1])
        with open(os.path.join(sd, "MonCertRun.tla"), "w") as f:
            f.write("---- MODULE MonCertRun ----\nEXTENDS MonCert\n====\n")
        with open(os.path.join(sd, "MonCertRun.cfg"), "w") as f:
            f.write('INIT MInit\nNEXT MNext\nCONSTANT FullLens = FALSE\nCONSTANT ObsFile = "%s"\nPOSTCONDITION Done\nCHECK_DEADLOCK FALSE\n' % obs)
        r = vlib.tlc(sd, "MonCertRun", workers=1, timeout=900)
        if r["error"]:
            raise vlib.Infra("monitor pass failed: %s\n%s" % (r["error"], r["tail"]))
        byid = {x["id"]: x for x in rows}
        violations, known_hits, seen = [], {}, set()
        nmon = 0
        for mon in vlib.tlc_lines(r["out_path"], "MON"):
            nmon += 1
            ks = vlib.key_str(mon["key"][1:])
            kf = vlib.classify(prop, mon["key"][1:], [], known)
            if kf:
                known_hits[kf["key"]] = kf["text"]
            elif ks not in seen and len(violations) < 20:
                seen.add(ks)
                path = vlib.save_replay(prop, "row-%d" % mon["id"], dict(property=prop, key=mon["key"], certrow=byid[mon["id"]]))
                violations.append((ks, path))
        cov = dict(states=max(g["states"], 1), transitions=max(g["states"], 1), traces_validated_against_impl=len(rows),
                   samples=[rows[len(rows) // 2]], rows=len(rows), monitor_violation_lines=nmon, known_findings_hit=sorted(known_hits),
                   exhaustive=True,
                   rule="the whole CertGate table: inbound (certificate present, SKI length, binding, TLS 1.0-1.3, sub-protocol offer), "
                        "outbound (presented certificate vs dialled SKI), generator subjects; each row on a real hub over loopback TLS")
        vlib.write_evidence(prop, tier, "model_checking", cov, time.time() - t0, len(violations),
                            assumptions=["crypto/tls, crypto/x509 and gorilla/websocket are trusted",
                                         "'SHIP processing started' is observed as the hub answering / sending the SHIP init message"])
        vlib.finish(prop, violations, known_hits, [])
