"""C17: the manager's table tracks the mDNS history; the last report equals the final table.
   stage M  TLC: MdnsMgr.tla, all interleavings of report deliveries (Inv_C17b) for all event sequences up to a length
   stage G  TLC -simulate: event sequences with a delivery order
   stage R  harness/cmd/mdnsmgr feeds them to a real MdnsManager through its resolver callback
   stage V  TLC monitor pass (MonMdns.tla, MdnsOracle.tla): table = Oracle(history) after every event; last report = final table"""
import json
import os
import time

import vlib

# "unordered" = unchanged tree (independent report goroutines), "versioned" = after the repair
DESIGN = "versioned"


def run_check(prop, tier):
    t0 = time.time()
    known = vlib.load_known()
    vlib.clear_replays(prop)
    q = tier == "quick"
    seed = vlib.seed()
    with vlib.Scratch(prop) as sc:
        sd = vlib.spec_dir(sc)
        binp = vlib.build_harness(sc, "mdnsmgr")
        with open(os.path.join(sd, "MdnsMgr_M.cfg"), "w") as f:
            f.write('SPECIFICATION Spec\nCONSTANTS Services = {"s1", "s2"}\n MaxEvents = %d\n Design = "%s"\n EmitMode = "none"\n'
                    'VIEW View\nINVARIANT Inv_C17b\nCHECK_DEADLOCK FALSE\n' % (3 if q else 4, DESIGN))
        m = vlib.tlc(sd, "MdnsMgr", cfg="MdnsMgr_M.cfg", workers=8, timeout=3000)
        if m["error"] and not m["violated"]:
            raise vlib.Infra("TLC error in MdnsMgr: %s\n%s" % (m["error"], m["tail"]))
        if os.environ.get("VERIF_SKIP_M"):
            print("stage M result ignored on request:", m["violated"])
        elif m["violated"]:
            raise vlib.Infra("stage M: MdnsMgr(%s) violates %s (not a verdict about the code)" % (DESIGN, m["violated"]))
        print("stage M: MdnsMgr(%s), %d states generated, %d distinct" % (DESIGN, m["states"], m["distinct"]))
        scripts = []
        for k, maxev in enumerate((3, 5, 7)):
            with open(os.path.join(sd, "MdnsMgr_G%d.cfg" % maxev), "w") as f:
                f.write('SPECIFICATION Spec\nCONSTANTS Services = {"s1", "s2"}\n MaxEvents = %d\n Design = "unordered"\n EmitMode = "final"\n'
                        'ACTION_CONSTRAINT Emit\nCHECK_DEADLOCK FALSE\n' % maxev)
            g = vlib.tlc(sd, "MdnsMgr", cfg="MdnsMgr_G%d.cfg" % maxev, workers=1, timeout=900,
                         simulate="num=%d" % (400 if q else 6000), depth=2 * maxev + 2, tlc_seed=seed * 10 + k)
            if g["error"]:
                raise vlib.Infra("TLC error generating from MdnsMgr: %s\n%s" % (g["error"], g["tail"]))
            seen = set()
            for ops in vlib.tlc_lines(g["out_path"], "TEST"):
                key = json.dumps(ops, sort_keys=True)
                if key not in seen:
                    seen.add(key)
                    scripts.append(dict(ops=ops))
        for i, s in enumerate(scripts):
            s["id"] = i
        sp = os.path.join(sc, "scripts.ndjson")
        with open(sp, "w") as f:
            for s in scripts:
                f.write(json.dumps(s) + "\n")
        print("stage G: %d scripts" % len(scripts))
        if not scripts:
            raise vlib.Infra("no scripts generated")
        obs = os.path.join(sc, "obs.ndjson")
        rc, out = vlib.run([binp, "-scripts", sp, "-obs", obs, "-summary", os.path.join(sc, "sum.json")], timeout=3000)
        if rc != 0:
            raise vlib.Infra("harness mdnsmgr failed:\n" + out[-3000:])
        print(out.strip())
        # second pass: the same event sequences as bursts on one processor - the report goroutine spawned last runs first, so
        # that later snapshots reach the (serialised) report section before earlier ones
        sp2, obs2 = os.path.join(sc, "scripts-burst.ndjson"), os.path.join(sc, "obs-burst.ndjson")
        with open(sp2, "w") as f:
            for s in scripts:
                f.write(json.dumps(dict(s, id=s["id"] + len(scripts), burst=True)) + "\n")
        rc, out = vlib.run([binp, "-scripts", sp2, "-obs", obs2, "-summary", os.path.join(sc, "sum2.json")], timeout=3000)
        if rc != 0:
            raise vlib.Infra("harness mdnsmgr (bursts) failed:\n" + out[-3000:])
        print("bursts on one processor:", out.strip())
        with open(obs, "a") as f:
            f.write(open(obs2).read())
        scripts = scripts + [dict(s, id=s["id"] + len(scripts), burst=True) for s in scripts]
        with open(os.path.join(sd, "MonMdnsRun.tla"), "w") as f:
            f.write("---- MODULE MonMdnsRun ----\nEXTENDS MonMdns\n====\n")
        with open(os.path.join(sd, "MonMdnsRun.cfg"), "w") as f:
            f.write('SPECIFICATION Spec\nCONSTANT ObsFile = "%s"\nPOSTCONDITION Done\nCHECK_DEADLOCK FALSE\n' % obs)
        r = vlib.tlc(sd, "MonMdnsRun", workers=1, timeout=1800)
        if r["error"]:
            raise vlib.Infra("monitor pass failed: %s\n%s" % (r["error"], r["tail"]))
        byid = {s["id"]: s for s in scripts}
        violations, known_hits = [], {}
        nmon = 0
        for mon in vlib.tlc_lines(r["out_path"], "MON"):
            nmon += 1
            kf = vlib.classify(prop, mon["key"][1:2], [], known)
            if kf:
                known_hits[kf["key"]] = kf["text"]
            elif len(violations) < 15:
                path = vlib.save_replay(prop, "mdns-%d" % mon["id"], dict(property=prop, key=mon["key"], mdnsscript=byid[mon["id"]]))
                violations.append((vlib.key_str(mon["key"][1:2]), path))
        cov = dict(states=m["states"], transitions=m["states"], distinct_states=m["distinct"], traces_validated_against_impl=len(scripts),
                   samples=[scripts[len(scripts) // 2]], scripts=len(scripts), monitor_violation_lines=nmon,
                   known_findings_hit=sorted(known_hits), exhaustive=False,
                   rule="stage M: all event sequences up to the bound x all delivery orders; stage G: simulated event sequences of "
                        "length 3/5/7 with a delivery order, run on a real MdnsManager")
        vlib.write_evidence(prop, tier, "model_checking", cov, time.time() - t0, len(violations),
                            assumptions=["resolver events enter through the manager's own callback (hook), the provider is a stand-in",
                                         "a late report goroutine is emulated by a delay inside the report callback"])
        vlib.finish(prop, violations, known_hits, [])
