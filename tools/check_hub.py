"""C15 and the hub-level parts of C10, C11, C18, decided with HubApi.tla.
   stage M  TLC: the hub model satisfies the dial / registry formulas for all operation sequences up to a length
   stage G  TLC emits one behaviour per edge of the bounded graph plus -simulate behaviours
   stage R  harness/cmd/hubapi replays each behaviour twice (canonical / re-spelled SKIs) into a real hub.Hub
   stage V  TLC monitor pass (MonHub.tla) on the recorded observations: the verdict"""
import json
import os
import time

import vlib

# behaviours of the unchanged tree the current tree still has (see HubApi.tla DefectNames)
DEFECTS = []


def tlaset(xs):
    return "{" + ", ".join('"%s"' % x for x in xs) + "}"


def write_cfg(sd, name, maxops, maxconns, emit, simdepth=0, invariants=(), constraints=(), view=True, skis=("r1", "r2"), genmode="full"):
    with open(os.path.join(sd, name + ".cfg"), "w") as f:
        f.write("SPECIFICATION Spec\nCONSTANTS Skis = %s\n MaxConns = %d\n Defects = %s\n GenMode = \"%s\"\n EmitMode = \"%s\"\n"
                " SimDepth = %d\n MaxOps = %d\n Spellings = {\"canon\", \"other\"}\n%s%s%sCHECK_DEADLOCK FALSE\n"
                % (tlaset(skis), maxconns, tlaset(DEFECTS), genmode, emit, simdepth, maxops, "VIEW View\n" if view else "",
                   "".join("INVARIANT %s\n" % i for i in invariants), "".join("ACTION_CONSTRAINT %s\n" % c for c in constraints)))


def gen(sd, cfg, simulate=None, depth=None, tlc_seed=None, workers=1):
    r = vlib.tlc(sd, "HubApi", cfg=cfg + ".cfg", workers=workers, timeout=1800, simulate=simulate, depth=depth, tlc_seed=tlc_seed)
    if r["error"]:
        raise vlib.Infra("TLC error while generating from HubApi: %s\n%s" % (r["error"], r["tail"]))
    tests, seen = [], set()
    for steps in vlib.tlc_lines(r["out_path"], "TEST"):
        key = json.dumps([s["a"] for s in (steps[:-1] if simulate else steps)], sort_keys=True)
        if key in seen:
            continue
        seen.add(key)
        tests.append(dict(steps=steps))
    os.remove(r["out_path"])
    return tests, r


def drop_prefixes(tests):
    keys = [tuple(json.dumps(s["a"], sort_keys=True) for s in t["steps"]) for t in tests]
    order = sorted(range(len(tests)), key=lambda i: keys[i])
    out = []
    for j, i in enumerate(order):
        if j + 1 < len(order):
            nxt = keys[order[j + 1]]
            if len(nxt) > len(keys[i]) and nxt[:len(keys[i])] == keys[i]:
                continue
        out.append(tests[i])
    return out


PROP_INVS = {"C01": ["Inv_C01_trust"], "C10": ["Inv_C10_dial", "Inv_C10_shutdown"], "C11": ["Inv_C11_registry", "Inv_C11_notify"], "C15": ["Inv_C11_registry"],
             "C18": ["Inv_C11_registry"]}


def collect(prop, tier):
    """runs the HubApi stages for prop and returns dict(violations, known_hits, notes, coverage)"""
    known = vlib.load_known()
    q = tier == "quick"
    seed = vlib.seed()
    with vlib.Scratch(prop) as sc:
        sd = vlib.spec_dir(sc)
        binp = vlib.build_harness(sc, "hubapi")
        invs = [i for i in PROP_INVS[prop] if not (i == "Inv_C10_shutdown" and "dialAfterShutdown" in DEFECTS)
                and not (i == "Inv_C11_notify" and "staleDisconnect" in DEFECTS)]
        write_cfg(sd, "HubApi_M", 6 if q else 7, 2, "none", invariants=invs)
        m = vlib.tlc(sd, "HubApi", cfg="HubApi_M.cfg", workers=8, timeout=3000)
        if m["error"] and not m["violated"]:
            raise vlib.Infra("TLC error in HubApi: %s\n%s" % (m["error"], m["tail"]))
        if m["violated"]:
            raise vlib.Infra("stage M: HubApi with Defects=%s violates %s (not a verdict about the code)" % (DEFECTS, m["violated"]))
        print("stage M: HubApi, %d states generated, %d distinct, %.0fs" % (m["states"], m["distinct"], m["seconds"]))
        write_cfg(sd, "HubApi_G", 4 if q else 5, 2, "edge", constraints=["EmitEdge"])
        tests, g = gen(sd, "HubApi_G", workers=4)
        edges = len(tests)
        tests = drop_prefixes(tests)
        write_cfg(sd, "HubApi_S", 40, 3, "final", simdepth=14, constraints=["EmitFinal"], view=False)
        sims, _ = gen(sd, "HubApi_S", simulate="num=%d" % (400 if q else 6000), depth=14, tlc_seed=seed)
        tests += sims
        # connection events only: several services whose connections report states side by side (no user operation in between)
        write_cfg(sd, "HubApi_SC", 40, 3, "final", simdepth=9, constraints=["EmitFinal"], view=False, genmode="conns")
        simc, _ = gen(sd, "HubApi_SC", simulate="num=%d" % (300 if q else 3000), depth=9, tlc_seed=seed + 3)
        tests += simc
        sims = sims + simc
        for i, t in enumerate(tests):
            t["id"] = i
        tp = os.path.join(sc, "tests.ndjson")
        with open(tp, "w") as f:
            for t in tests:
                f.write(json.dumps(t) + "\n")
        print("stage G: %d behaviours (%d edges, %d simulated)" % (len(tests), edges, len(sims)))
        obs = os.path.join(sc, "obs.ndjson")
        summ = os.path.join(sc, "sum.json")
        rc, out = vlib.run([binp, "-tests", tp, "-obs", obs, "-summary", summ], timeout=3000)
        if rc != 0:
            raise vlib.Infra("harness hubapi failed:\n" + out[-3000:])
        print(out.strip())
        s = json.load(open(summ))
        with open(os.path.join(sd, "MonHubRun.tla"), "w") as f:
            f.write("---- MODULE MonHubRun ----\nEXTENDS MonHub\n====\n")
        with open(os.path.join(sd, "MonHubRun.cfg"), "w") as f:
            f.write('SPECIFICATION Spec\nCONSTANT ObsFile = "%s"\nPOSTCONDITION Done\nCHECK_DEADLOCK FALSE\n' % obs)
        r = vlib.tlc(sd, "MonHubRun", workers=1, timeout=1800)
        if r["error"]:
            raise vlib.Infra("monitor pass failed: %s\n%s" % (r["error"], r["tail"]))
        byid = {t["id"]: t for t in tests}
        violations, known_hits, others = [], {}, set()
        nmon = 0
        for mon in vlib.tlc_lines(r["out_path"], "MON"):
            nmon += 1
            if mon["key"][0] != prop:
                others.add(vlib.key_str(mon["key"][:2]))
                continue
            kf = vlib.classify(prop, mon["key"][1:], [], known)
            if kf:
                known_hits[kf["key"]] = kf["text"]
            elif len(violations) < 15:
                path = vlib.save_replay(prop, "hub-%d" % mon["id"], dict(property=prop, key=mon["key"], hubtest=byid[mon["id"]]))
                violations.append((vlib.key_str(mon["key"][1:]), path))
        notes = ["formula of another property failed in this run: %s; run that property's check" % k for k in sorted(others)]
        if s["divergences"]:
            notes.append("NONCONFORMANCE property=%s %d of %d behaviours diverge from HubApi, e.g. %s" % (prop, s["divergences"], s["tests"], s["divergence_samples"][0]))
        cov = dict(states=m["states"], transitions=m["states"], distinct_states=m["distinct"], traces_validated_against_impl=2 * len(tests),
                   samples=[dict(actions=[st["a"] for st in tests[len(tests) // 2]["steps"]])], edges_emitted=edges,
                   behaviours_replayed=len(tests), steps_replayed=s["steps"], nonconformance=s["divergences"],
                   monitor_violation_lines=nmon, known_findings_hit=sorted(known_hits), exhaustive=False,
                   rule="stage M exhaustive over all operation sequences up to the bound on two SKIs; one behaviour per edge of the "
                        "generation graph plus simulated behaviours, each run twice (canonical / re-spelled) on a real hub.Hub")
        return dict(violations=violations, known_hits=known_hits, notes=notes, coverage=cov)


ASSUMPTIONS = ["connection objects are harness fakes driven by the model (the SME layer is checked separately)",
               "dial attempts are observed at refusing TCP listeners, the random back-off is scaled to zero"]


def merge(r, extra, tag):
    r["violations"] += extra["violations"]
    r["known_hits"].update(extra["known_hits"])
    r["notes"] += extra["notes"]
    r["coverage"][tag] = extra["coverage"]
    for k in ("states", "transitions", "traces_validated_against_impl"):
        r["coverage"][k] += extra["coverage"][k]


def run_check(prop, tier):
    t0 = time.time()
    vlib.clear_replays(prop)
    r = collect(prop, tier)
    if prop in ("C10", "C18"):
        # integrated view: the same property judged on scenarios between two real hubs
        import check_hub2
        merge(r, check_hub2.collect(prop, tier), "two_real_hubs")
    vlib.write_evidence(prop, tier, "model_checking", r["coverage"], time.time() - t0, len(r["violations"]), assumptions=ASSUMPTIONS)
    vlib.finish(prop, r["violations"], r["known_hits"], r["notes"])
