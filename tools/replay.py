#!/usr/bin/env python3
"""replay.py <replay file>: re-executes one recorded case against /repo's current working tree and prints what the real
code did, step by step, and what the TLC monitor pass says about it."""
import json
import os
import sys

sys.path.insert(0, os.path.dirname(os.path.abspath(__file__)))
import vlib  # noqa: E402


def main():
    r = json.load(open(sys.argv[1]))
    prop = r["property"]
    with vlib.Scratch("replay") as sc:
        sd = vlib.spec_dir(sc)
        if "test" in r:
            import sme
            binp = vlib.build_harness(sc, "sme")
            obs, summ, out = sme.replay(sc, binp, [r["test"]], "r", par=1)
            print(out)
            for line in open(obs):
                o = json.loads(line)
                for i, s in enumerate(o["steps"]):
                    print("%3d %-16s %-28s %s -> %-22s timer=%s open=%s %s" % (
                        i + 1, s["a"]["a"], s["a"]["m"], s["e"], s["ob"]["st"], s["ob"]["tRun"], s["ob"]["wsOpen"],
                        " ".join("%s:%s" % (e["k"], e["v"]) for e in s["ob"]["ev"])))
            mons, _ = sme.monitor(sd, obs, "r")
            for m in mons:
                print("MONITOR", m["key"], "at step", m["i"], "flags", m.get("kf"))
            sys.exit(1 if any(m["key"][0] == prop for m in mons) else 0)
        elif "script" in r:
            binp = vlib.build_harness(sc, "timer")
            sp = os.path.join(sc, "s.ndjson")
            with open(sp, "w") as f:
                f.write(json.dumps(r["script"]) + "\n")
            env = dict(vlib.GOENV)
            if r.get("gomaxprocs") not in (None, "default"):
                env["GOMAXPROCS"] = r["gomaxprocs"]
            obs = os.path.join(sc, "o.ndjson")
            rc, out = vlib.run([binp, "-scripts", sp, "-obs", obs, "-summary", os.path.join(sc, "s.json")], timeout=120, env=env)
            print(out)
            print(open(obs).read())
        else:
            print("unknown replay file format")
            sys.exit(2)


if __name__ == "__main__":
    vlib.main_guard(main)
