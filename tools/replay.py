#!/usr/bin/env python3
"""replay.py <replay file>: re-executes one recorded case against /repo's current working tree (VERIF_REPO: another
checkout), prints what the real code did and what the TLC monitor pass of that engine says about it.
exit 1: the monitor flags the replay's property again; 0: it does not; 2: the case cannot be re-executed."""
import json
import os
import sys

sys.path.insert(0, os.path.dirname(os.path.abspath(__file__)))
import vlib  # noqa: E402

# kind of replay file -> (harness, flag of the input file, further arguments, monitor module, monitor configuration head)
SPEC = 'SPECIFICATION Spec\n'
ENGINES = {
    "hubtest": ("hubapi", "-tests", ["-summary", "{sc}/sum.json"], "MonHub", SPEC),
    "hub2script": ("hub2", "-scripts", ["-par", "1", "-scale", "{scale}"], "MonHub2", SPEC),
    "wsscript": ("wsconn", "-scripts", ["-summary", "{sc}/sum.json"], "MonWs", SPEC),
    "certrow": ("certgate", "-rows", [], "MonCert", 'INIT MInit\nNEXT MNext\nCONSTANT FullLens = FALSE\n'),
    "jsondoc": ("eebusjson", "-rows", [], "MonJson", SPEC),
    "textrow": ("mdnstext", "-rows", [], "MonText", 'INIT MInit\nNEXT MNext\n'),
    "annseq": ("mdnstext", "-seqs", [], "MonAnn", SPEC),
    "mdnsscript": ("mdnsmgr", "-scripts", ["-summary", "{sc}/sum.json"], "MonMdns", SPEC),
    "badrow": ("mdnsmgr", "-bad", [], "MonBad", SPEC),
    "avahiscript": ("avahi", "-scripts", ["-summary", "{sc}/sum.json"], "MonAvahi", SPEC),
}


def generic(r, kind, sc, sd, prop):
    harness, flag, extra, mon, head = ENGINES[kind]
    case = r[kind]
    if kind == "annseq":
        case = dict(id=0, ops=case)
    if isinstance(case, dict) and "id" not in case:
        case["id"] = 0
    binp = vlib.build_harness(sc, harness)
    flagged = False
    # two-hub scenarios were run with the dial back-off scaled to 2 % or to zero (the replay file does not say which): both
    for scale in (["20", "0"] if kind == "hub2script" else [""]):
        inp = os.path.join(sc, "in%s.ndjson" % scale)
        with open(inp, "w") as f:
            f.write(json.dumps(case) + "\n")
        obs = os.path.join(sc, "obs%s.ndjson" % scale)
        args = [a.format(sc=sc, scale=scale) for a in extra]
        rc, out = vlib.run([binp, flag, inp, "-obs", obs] + args, timeout=600)
        print(out.strip()[-3000:])
        if rc != 0:
            crash = vlib.library_crash(out)
            print("the harness ended with status %d%s" % (rc, " - library crash: " + crash if crash else ""))
            return crash is not None
        for line in open(obs):
            print(line.strip()[:4000])
        name = "%sReplay%s" % (mon, scale)
        with open(os.path.join(sd, name + ".tla"), "w") as f:
            f.write("---- MODULE %s ----\nEXTENDS %s\n====\n" % (name, mon))
        with open(os.path.join(sd, name + ".cfg"), "w") as f:
            f.write(head + 'CONSTANT ObsFile = "%s"\nPOSTCONDITION Done\nCHECK_DEADLOCK FALSE\n' % obs)
        t = vlib.tlc(sd, name, workers=1, timeout=600)
        if t["error"]:
            raise vlib.Infra("monitor pass failed: %s\n%s" % (t["error"], t["tail"]))
        for m in vlib.tlc_lines(t["out_path"], "MON"):
            print("MONITOR", m["key"], "flags", m.get("kf"))
            flagged = flagged or m["key"][0] == prop
    return flagged


def main():
    r = json.load(open(sys.argv[1]))
    prop = r["property"]
    with vlib.Scratch("replay") as sc:
        sd = vlib.spec_dir(sc)
        if "test" in r:
            import sme
            binp = vlib.build_harness(sc, "sme")
            obs, summ, out = sme.replay(sc, binp, [r["test"]], "r", par=1)
            print(out)
            for line in open(obs):
                o = json.loads(line)
                for i, s in enumerate(o["steps"]):
                    print("%3d %-16s %-28s %s -> %-22s timer=%s open=%s %s" % (
                        i + 1, s["a"]["a"], s["a"].get("m", ""), s["e"], s["ob"]["st"], s["ob"]["tRun"], s["ob"]["wsOpen"],
                        " ".join("%s:%s" % (e["k"], e["v"]) for e in s["ob"]["ev"])))
            mons, _ = sme.monitor(sd, obs, "r")
            for m in mons:
                print("MONITOR", m["key"], "at step", m["i"], "flags", m.get("kf"))
            sys.exit(1 if any(m["key"][0] == prop for m in mons) else 0)
        elif "script" in r:
            binp = vlib.build_harness(sc, "timer")
            sp = os.path.join(sc, "s.ndjson")
            with open(sp, "w") as f:
                f.write(json.dumps(r["script"]) + "\n")
            env = dict(vlib.GOENV)
            if r.get("gomaxprocs") not in (None, "default"):
                env["GOMAXPROCS"] = r["gomaxprocs"]
            obs = os.path.join(sc, "o.ndjson")
            rc, out = vlib.run([binp, "-scripts", sp, "-obs", obs, "-summary", os.path.join(sc, "s.json")], timeout=120, env=env)
            print(out)
            print(open(obs).read())
        elif "output_tail" in r:
            print("a process crash inside the library; the output of the run that crashed:\n" + r["output_tail"])
            sys.exit(2)
        else:
            for kind in ENGINES:
                if kind in r:
                    sys.exit(1 if generic(r, kind, sc, sd, prop) else 0)
            print("unknown replay file format")
            sys.exit(2)


if __name__ == "__main__":
    vlib.main_guard(main)
