"""C05 (and the integrated view of C03 C06 C10 C11 C18): two real hubs.
   stage M  TLC: Hub2.tla - two hubs, non-atomic check/dial/keep/Run/register, delayed dials, reports, double connection
            rule, closes - model checked for 'stable and quiet => exactly one good connection'
   stage G  TLC -simulate: environment scripts (registration / visibility in any order, DisconnectSKI, transport cut), each
            step marked with whether the library had come to rest
   stage R  harness/cmd/hub2 runs them on two real hubs over loopback TLS with the real MdnsManager over an ether
   stage V  TLC monitor pass (MonHub2.tla) at quiescence"""
import json
import os
import time
import zlib

import vlib

# repairs present in the current tree: FixStale = the attempt-running flag is cleared together with the counter,
# AtomicReg = keep-check .. register is one critical section
FIX_STALE = True
ATOMIC_REG = True
# FixIntent = an outbound connection is only registered while the peer is still paired / queued
FIX_INTENT = True
# FixShut = no connection is registered once the hub is shut down
FIX_SHUT = True
# FixCancel = CancelPairingWithSKI ends a connection whose handshake is past the hello phase
FIX_CANCEL = True
# FixCancelOrder = CancelPairingWithSKI takes the trust away before it looks into the registry (under the registration lock)
FIX_CANCEL_ORDER = True


def collect(prop, tier):
    """runs the two-hub stages and returns dict(violations, known_hits, notes, coverage) for prop"""
    known = vlib.load_known()
    q = tier == "quick"
    seed = vlib.seed()
    with vlib.Scratch(prop) as sc:
        sd = vlib.spec_dir(sc)
        binp = vlib.build_harness(sc, "hub2")
        b = lambda x: "TRUE" if x else "FALSE"
        with open(os.path.join(sd, "Hub2_M.cfg"), "w") as f:
            f.write("SPECIFICATION Spec\nCONSTANTS MaxC = %d\n MaxDisturb = %d\n AtomicReg = %s\n FixStale = %s\n FixIntent = %s\n FixShut = %s\n FixCancel = %s\n CancelSplit = FALSE\n FixCancelOrder = FALSE\n Rich = TRUE\n Rich2 = TRUE\n Warm = FALSE\n IdWrong = {}\n EmitMode = \"none\"\n SimDepth = 0\n"
                    "INVARIANT P_C05\nINVARIANT NoOrphan\nINVARIANT P_C10_trust\nINVARIANT P_C10_shut\nINVARIANT P_C09_pin\nCHECK_DEADLOCK FALSE\n"
                    % (3 if q else 4, 2, b(ATOMIC_REG), b(FIX_STALE), b(FIX_INTENT), b(FIX_SHUT), b(FIX_CANCEL)))
        model_note = None
        if prop in ("C05", "C09", "C10"):
            m = vlib.tlc(sd, "Hub2", cfg="Hub2_M.cfg", workers=8, timeout=3000)
            if m["error"] and not m["violated"]:
                raise vlib.Infra("TLC error in Hub2: %s\n%s" % (m["error"], m["tail"]))
            if m["violated"]:
                # the specification of the repaired design violates a formula: a modelling error or a regression of the
                # specification, never a verdict about the code
                raise vlib.Infra("stage M: Hub2 violates %s on the model (not a verdict about the code)" % m["violated"])
            print("stage M: Hub2, %d states generated, %d distinct" % (m["states"], m["distinct"]))
            if prop == "C10":
                # CancelPairingWithSKI as the two steps it is in the code, the library acting in between: with the order of the
                # steps as in the tree the formulas hold; with the order it had before the repair TLC finds the dial that becomes
                # a connection between the look into the registry and the clearing of the trust (control)
                with open(os.path.join(sd, "Hub2_M.cfg")) as f:
                    base = f.read().replace("CancelSplit = FALSE", "CancelSplit = TRUE").replace("MaxC = 4", "MaxC = 3")
                for name, order, expect in (("Hub2_MC.cfg", FIX_CANCEL_ORDER, False), ("Hub2_MCN.cfg", False, True)):
                    with open(os.path.join(sd, name), "w") as f:
                        f.write(base.replace("FixCancelOrder = FALSE", "FixCancelOrder = %s" % b(order)))
                    mc = vlib.tlc(sd, "Hub2", cfg=name, workers=8, timeout=3000)
                    if mc["error"] and not mc["violated"]:
                        raise vlib.Infra("TLC error in Hub2 (%s): %s\n%s" % (name, mc["error"], mc["tail"]))
                    if bool(mc["violated"]) != expect:
                        raise vlib.Infra("stage M: Hub2 with the cancel call in two steps (%s): %s (not a verdict about the code)"
                                         % (name, "violates %s" % mc["violated"] if mc["violated"] else "the control is not violated"))
                    if expect:
                        print("stage M: control - the cancel call with its steps in the old order violates %s" % mc["violated"])
                    else:
                        m["states"] += mc["states"]
                        m["distinct"] += mc["distinct"]
                        print("stage M: Hub2 with the cancel call in two steps, %d states generated, %d distinct" % (mc["states"], mc["distinct"]))
            if prop == "C09":
                # the same with a wrong stored SHIP id at one hub
                with open(os.path.join(sd, "Hub2_M.cfg")) as f:
                    cfg = f.read().replace("IdWrong = {}", 'IdWrong = {"A"}').replace("MaxDisturb = 2", "MaxDisturb = 1")
                with open(os.path.join(sd, "Hub2_MW.cfg"), "w") as f:
                    f.write(cfg)
                mw = vlib.tlc(sd, "Hub2", cfg="Hub2_MW.cfg", workers=8, timeout=3000)
                if mw["error"] or mw["violated"]:
                    raise vlib.Infra("stage M: Hub2 with a wrong stored SHIP id: %s" % (mw["violated"] or mw["error"]))
                m["states"] += mw["states"]
                m["distinct"] += mw["distinct"]
        else:
            # for the connection-level properties the two-hub runs are a source of real histories; their model is ShipSme
            m = dict(states=0, distinct=0)
        depth = 40
        outs = []
        # families of environment scripts: plain, rich (Unregister / Disappear / Restart / Shutdown), rich2 (+ CancelPairing,
        # SetAutoAccept), and two with a wrong stored SHIP id at one hub (C09)
        fams = [("plain", "FALSE", "FALSE", "{}"), ("rich", "TRUE", "FALSE", "{}"), ("rich2", "TRUE", "TRUE", "{}"),
                ("warm", "TRUE", "TRUE", "{}"), ("wrongA", "FALSE", "TRUE", '{"A"}'), ("wrongB", "FALSE", "TRUE", '{"B"}')]
        for fi, (fam, rich, rich2, wrong) in enumerate(fams):
            with open(os.path.join(sd, "Hub2_G%s.cfg" % fam), "w") as f:
                f.write("SPECIFICATION Spec\nCONSTANTS MaxC = 6\n MaxDisturb = 3\n AtomicReg = FALSE\n FixStale = FALSE\n FixIntent = FALSE\n FixShut = FALSE\n FixCancel = FALSE\n CancelSplit = FALSE\n FixCancelOrder = FALSE\n Rich = %s\n Rich2 = %s\n Warm = %s\n IdWrong = %s\n EmitMode = \"final\"\n SimDepth = %d\n"
                        "ACTION_CONSTRAINT Emit\nCHECK_DEADLOCK FALSE\n" % (rich, rich2, "TRUE" if fam == "warm" else "FALSE", wrong, depth))
            g = vlib.tlc(sd, "Hub2", cfg="Hub2_G%s.cfg" % fam, workers=1, timeout=900, simulate="num=%d" % (300 if q else 3000), depth=depth,
                         tlc_seed=seed + 7 * fi)
            if g["error"]:
                raise vlib.Infra("TLC error generating from Hub2: %s\n%s" % (g["error"], g["tail"]))
            outs.append((fam, list(vlib.tlc_lines(g["out_path"], "TEST"))))
        limit = 72 if q else 1500
        share = {"plain": 0.17, "rich": 0.18, "rich2": 0.15, "warm": 0.25, "wrongA": 0.125, "wrongB": 0.125}
        scripts = []
        for fam, recs in outs:
            fs, seen = [], set()
            for sc_ops in recs:
                ops = []
                for o in sc_ops:
                    if o["quiet"] and (ops or fam == "warm"):
                        ops.append(dict(op="Settle", h=""))
                    ops.append(dict(op=o["op"], h=o["h"], st=o.get("st", "")))
                key = json.dumps(ops)
                if key in seen or not ops:
                    continue
                seen.add(key)
                if fam == "warm":
                    # the model's warm start spelled out: both register, both come into sight (order rotates), the pair connects
                    k = len(fs) % 4
                    pre = [dict(op="Register", h="AB"[k % 2]), dict(op="Register", h="BA"[k % 2]), dict(op="Appear", h="AB"[k // 2]), dict(op="Appear", h="BA"[k // 2])]
                    ops = pre + ops
                fs.append(dict(high="A", ops=ops, fam=fam))
            # keep maximal scripts only (every environment step prints the script so far)
            keys = sorted(json.dumps(s["ops"]) for s in fs)
            bykey = {json.dumps(s["ops"]): s for s in fs}
            keep = []
            for i, k in enumerate(keys):
                if i + 1 < len(keys) and keys[i + 1].startswith(k[:-1] + ","):
                    continue
                keep.append(bykey[k])
            fs = [s for s in keep if len([o for o in s["ops"] if o["op"] != "Settle"]) >= (3 if fam.startswith("wrong") else 6 if fam == "warm" else 4)]
            def dial_at(s):
                # position after which some hub has registered its peer and sees it (it will set up a connection); -1 if never
                reg, app = set(), set()
                for i, o in enumerate(s["ops"]):
                    if o["op"] == "Register":
                        reg.add(o["h"])
                    elif o["op"] == "Appear":
                        app.add(o["h"])
                    if reg & app:
                        return i
                return -1

            def score(s):
                # disturbances that meet a connection (being set up or established) are what the scripts are for
                d = dial_at(s)
                if d < 0:
                    return 0
                if fam.startswith("wrong"):
                    # the hub with the wrong stored SHIP id (W) should get a request from its peer while it does not trust it yet, and
                    # then go past hello: auto accept switched on before the request, or the user's Register while it is pending
                    w, o = fam[-1], "AB".replace(fam[-1], "")
                    ops = s["ops"]
                    od = [i for i, x in enumerate(ops) if x["h"] == o and x["op"] in ("Register", "Appear")]
                    if len({ops[i]["op"] for i in od}) < 2:
                        return 1
                    arrive = max(min(i for i in od if ops[i]["op"] == "Register"), min(i for i in od if ops[i]["op"] == "Appear"))
                    wreg = [i for i, x in enumerate(ops) if x["h"] == w and x["op"] == "Register"]
                    auto = any(x["h"] == w and x["op"] == "AutoOn" for x in ops[:arrive]) and not any(x["h"] == w and x["op"] == "AutoOff" for x in ops[:arrive])
                    pend = any(i > arrive and ops[i].get("st") == "setup" for i in wreg) and not any(i < arrive for i in wreg)
                    return 1 + 3 * int(auto and not any(i < arrive for i in wreg)) + 3 * int(pend)
                ops = s["ops"]
                kinds = len({o["op"] for o in ops[d + 1:] if o["op"] in ("Cancel", "Unregister", "Disconnect", "Cut", "Restart", "Shutdown", "AutoOff", "AutoOn")})
                # situations around a request that waits for the other user: it ends (cut, disconnect, restart, out of sight)
                # and the user registers afterwards; the user registers while it is pending; a pairing removed and made again
                bonus = 0
                dialler = next(h for h in "AB" if any(o["op"] == "Register" and o["h"] == h for o in ops[:d + 1])
                               and any(o["op"] == "Appear" and o["h"] == h for o in ops[:d + 1]))
                other = "AB".replace(dialler, "")
                if not any(o["op"] == "Register" and o["h"] == other for o in ops[:d + 1]):
                    later = ops[d + 1:]
                    regs = [i for i, o in enumerate(later) if o["op"] == "Register" and o["h"] == other]
                    ends = [i for i, o in enumerate(later) if o["op"] in ("Cut", "Disconnect", "Restart", "Disappear", "Shutdown")]
                    if regs and ends and min(ends) < max(regs):
                        bonus += 2
                    if regs and later[regs[0]].get("st") == "setup":
                        bonus += 1
                for h in "AB":
                    seq = [o["op"] for o in ops if o["h"] == h and o["op"] in ("Register", "Unregister", "Cancel")]
                    if any(seq[i] in ("Unregister", "Cancel") and seq[i + 1] == "Register" for i in range(len(seq) - 1)):
                        bonus += 1
                # the user takes his word back right after the dial was triggered (no rest in between): it falls into the dial
                if d + 1 < len(ops) and ops[d + 1]["op"] in ("Unregister", "Cancel") and ops[d + 1]["h"] == dialler:
                    bonus += 2
                return 1 + kinds + bonus
            # deterministic in the seed: half of a family's scripts are those with the most kinds of disturbance after a
            # connection was set up, the rest are drawn without looking (one in five sets up no connection at all)
            fs.sort(key=lambda s: (zlib.crc32(json.dumps(s["ops"]).encode()) + seed * 7919) % 1000003)
            n = max(2, int(limit * share[fam]))
            def features(s):
                # what a script exercises after a connection was triggered: each disturbance with the state the model's
                # connection was in, and each ordered pair of neighbouring disturbances (rests in between dropped)
                d = dial_at(s)
                if d < 0:
                    return set()
                dist = [o for o in s["ops"][d + 1:] if o["op"] != "Settle"]
                f = {"%s:%s" % (o["op"], o.get("st", "")) for o in dist}
                f |= {"%s>%s%s" % (a["op"], b["op"], "" if a["h"] == b["h"] else "'") for a, b in zip(dist, dist[1:])}
                if dist:
                    f.add("first:" + dist[0]["op"])
                return f
            # half of a family's scripts: a greedy cover of those features (ties: the score below), so that a small budget
            # still holds every kind of situation the family offers - e.g. DisconnectSKI followed by a transport cut
            best, covered, cand = [], set(), sorted(fs, key=lambda s: -score(s))
            while len(best) < n // 2 and cand and not fam.startswith("wrong"):    # (wrong SHIP id: the score alone)
                gain = max(cand, key=lambda s: len(features(s) - covered))
                if not features(gain) - covered:
                    break
                best.append(gain)
                covered |= features(gain)
                cand.remove(gain)
            best += cand[:n // 2 - len(best)]
            rest = [s for s in fs if s not in best]
            with_dial = [s for s in rest if dial_at(s) >= 0]
            without = [s for s in rest if dial_at(s) < 0]
            fs = (best + with_dial[:n - n // 2 - n // 5] + without[:n // 5] + with_dial[n - n // 2 - n // 5:])[:n]
            # a prefix of a behaviour is a behaviour: scripts that END where the user takes his word back right after the dial
            # was triggered, so that the state at rest is judged there (the connection of that dial must be gone)
            pre, seen_pre = [], set()
            for s in sorted(keep, key=lambda s: -score(s)):
                d = dial_at(s)
                if d < 0 or d + 1 >= len(s["ops"]) or s["ops"][d + 1]["op"] not in ("Unregister", "Cancel"):
                    continue
                reg = {o["h"] for o in s["ops"][:d + 1] if o["op"] == "Register"} & {o["h"] for o in s["ops"][:d + 1] if o["op"] == "Appear"}
                if s["ops"][d + 1]["h"] not in reg:
                    continue
                cut = dict(s, ops=s["ops"][:d + 2], prefix=True)
                k = json.dumps(cut["ops"])
                if k not in seen_pre:
                    seen_pre.add(k)
                    pre.append(cut)
            fs = fs + pre[:(2 if q else 12)]
            for j, s in enumerate(fs):
                s["burst"] = 1 + 2 * (j % 2)
                # a slow network for the scripts whose next user operation follows the dial trigger without a rest, and for every
                # fourth of the others
                d = dial_at(s)
                nxt = s["ops"][d + 1]["op"] if 0 <= d < len(s["ops"]) - 1 else ""
                s["slowDial"] = 40 if (nxt in ("Unregister", "Cancel", "Register", "AutoOff", "Disappear") or j % 4 == 3) else 0
                # every sixth script: the goroutine that completes a handshake pauses just before it sets the device up, so that a
                # close from another goroutine (Shutdown, Unregister, DisconnectSKI, ...) may fall before the set-up
                s["holdComplete"] = 30 if j % 6 == 5 else 0
                # CancelPairingWithSKI is held between its two steps until a dial that is under way became a connection
                s["gate"] = s["slowDial"] > 0 and any(o["op"] == "Cancel" for o in s["ops"])
                # both SKI orderings: the specification calls the hub with the higher SKI "A"; with high = "B" the script is the
                # mirror image (the model is symmetric in the two users' operations)
                s["high"] = "AB"[(j // 2) % 2]
                if fam == "wrongA":
                    s["ids"] = dict(A="wrong", B=("none", "right")[j % 2])
                elif fam == "wrongB":
                    s["ids"] = dict(A=("none", "right")[j % 2], B="wrong")
                else:
                    s["ids"] = dict(A=("none", "right", "none")[j % 3], B=("none", "none", "right")[j % 3])
                if fam.startswith("wrong"):
                    # the hubs re-dial for ever (every attempt ends in the access phase): give them some time, then stop both
                    s["ops"] = s["ops"] + [dict(op="Sleep", h="", ms=1500), dict(op="Shutdown", h="A"), dict(op="Shutdown", h="B")]
            scripts += fs
        for i, s in enumerate(scripts):
            s["id"] = i
        sp = os.path.join(sc, "scripts.ndjson")
        with open(sp, "w") as f:
            for s in scripts:
                f.write(json.dumps(s) + "\n")
        print("stage G: %d scripts" % len(scripts))
        if not scripts:
            raise vlib.Infra("no scripts generated")
        obs = os.path.join(sc, "obs.ndjson")
        # two passes: the dial back-off scaled to 2 % (dials rarely collide) and to zero (both hubs dial at once: double connections)
        # and a third: one processor only (GOMAXPROCS=1) - a goroutine the library starts does not run before its creator
        # blocks, so bursts of reports and their delayed notification goroutines interleave differently
        s20 = [s for i, s in enumerate(scripts) if s["fam"].startswith("wrong") or i % 3 == 0]
        s0 = [s for i, s in enumerate(scripts) if not s["fam"].startswith("wrong") and i % 3 == 1]
        s0p1 = [s for i, s in enumerate(scripts) if not s["fam"].startswith("wrong") and i % 3 == 2]
        parts = []
        for tag, scale, part in (("s20", "20", s20), ("s0", "0", s0), ("s0p1", "0", s0p1)):
            if not part:
                continue
            pp = os.path.join(sc, "scripts-%s.ndjson" % tag)
            with open(pp, "w") as f:
                for s in part:
                    f.write(json.dumps(s) + "\n")
            po = os.path.join(sc, "obs-%s.ndjson" % tag)
            env = dict(vlib.GOENV, GOMAXPROCS="1") if tag == "s0p1" else None
            rc, out = vlib.run([binp, "-scripts", pp, "-obs", po, "-par", "8" if tag == "s0p1" else "24", "-scale", scale], timeout=6000, env=env)
            if rc != 0:
                crash = vlib.library_crash(out)
                if crash:
                    path = vlib.save_replay(prop, "process-crash", dict(property=prop, key=["process-crash", crash], output_tail=out[-6000:]))
                    vlib.finish(prop, [("process-crash/" + crash, path)], {}, [])
                raise vlib.Infra("harness hub2 failed:\n" + out[-3000:])
            print("back-off scale %s permille%s:" % (scale, ", one processor" if tag == "s0p1" else ""), out.strip().splitlines()[-1])
            parts.append(po)
        with open(obs, "w") as f:
            for po in parts:
                f.write(open(po).read())
        with open(os.path.join(sd, "MonHub2Run.tla"), "w") as f:
            f.write("---- MODULE MonHub2Run ----\nEXTENDS MonHub2\n====\n")
        with open(os.path.join(sd, "MonHub2Run.cfg"), "w") as f:
            f.write('SPECIFICATION Spec\nCONSTANT ObsFile = "%s"\nPOSTCONDITION Done\nCHECK_DEADLOCK FALSE\n' % obs)
        r = vlib.tlc(sd, "MonHub2Run", workers=1, timeout=1800)
        if r["error"]:
            raise vlib.Infra("monitor pass failed: %s\n%s" % (r["error"], r["tail"]))
        byid = {s["id"]: s for s in scripts}
        violations, known_hits, others = [], {}, {}
        nmon = 0
        for mon in vlib.tlc_lines(r["out_path"], "MON"):
            nmon += 1
            if mon["key"][0] != prop:
                if not vlib.classify(mon["key"][0], mon["key"][1:], mon.get("kf", []), known):
                    others[vlib.key_str(mon["key"][:2])] = mon["id"]
                continue
            kf = vlib.classify(prop, mon["key"][1:], mon.get("kf", []), known)
            if kf:
                known_hits[kf["key"]] = kf["text"]
            elif len(violations) < 15:
                path = vlib.save_replay(prop, "hub2-%d" % mon["id"], dict(property=prop, key=mon["key"], hub2script=byid[mon["id"]]))
                violations.append((vlib.key_str(mon["key"][1:]), path))
        notes = ["formula of another property failed in this run: %s (scenario %d); run that property's check" % (k, v) for k, v in sorted(others.items())]
        if others and os.environ.get("VERIF_NOTES_DIR"):
            # diagnosis aid: the observations of the scenarios another property's formula flagged
            os.makedirs(os.environ["VERIF_NOTES_DIR"], exist_ok=True)
            want = {v: k for k, v in others.items()}
            for line in open(obs):
                o = json.loads(line)
                if o["id"] in want:
                    with open(os.path.join(os.environ["VERIF_NOTES_DIR"], "%s-%s-%d-%d.json" % (prop, want[o["id"]].replace("/", "_"), o["id"], int(time.time()))), "w") as f:
                        f.write(line)
        if model_note:
            notes.append(model_note)
        stable, unsettled = 0, 0
        for line in open(obs):
            o = json.loads(line)
            if o["stable"]:
                stable += 1
            if not o["settled"]:
                unsettled += 1
        if unsettled * 4 > len(scripts) and not violations:
            raise vlib.Infra("%d of %d two-hub scenarios never came to rest: no verdict (machine overloaded?)" % (unsettled, len(scripts)))
        if unsettled:
            notes.append("%d of %d two-hub scenarios never came to rest within the budget and were not judged as quiescent states" % (unsettled, len(scripts)))
        cov = dict(states=m["states"], transitions=m["states"], distinct_states=m["distinct"], traces_validated_against_impl=len(scripts),
                   samples=[scripts[len(scripts) // 2]], scripts=len(scripts), stable_scenarios=stable, unsettled_scenarios=unsettled, monitor_violation_lines=nmon,
                   known_findings_hit=sorted(known_hits), exhaustive=False,
                   rule="stage M: Hub2 exhaustive within the bounds; stage G: simulated environment scripts; every script runs on two real "
                        "hubs (real TLS websockets, real MdnsManager over an ether, TCP proxies), judged at quiescence")
        return dict(violations=violations, known_hits=known_hits, notes=notes, coverage=cov)


ASSUMPTIONS = ["the random dial back-off is scaled to 2% / 0% through the verif delay hook; all other delays are real",
               "quiescence = no hook / callback event for 1.5 s (at most 15 s)",
               "the Go scheduler chooses the interleaving of the real hubs' goroutines; scripts force orders only through the environment"]


def run_check(prop, tier):
    t0 = time.time()
    vlib.clear_replays(prop)
    r = collect(prop, tier)
    vlib.write_evidence(prop, tier, "model_checking", r["coverage"], time.time() - t0, len(r["violations"]), assumptions=ASSUMPTIONS)
    vlib.finish(prop, r["violations"], r["known_hits"], r["notes"])
