"""C07: the EEBUS JSON transform.
   stage M  TLC enumerates every bounded document (EebusJsonM.tla): Benign(d) => RoundTrip(d) on the token model of the
            textual inverse, and the known-finding classes are witnessed
   stage G  the same enumeration printed as rows
   stage R  harness/cmd/eebusjson runs the real JsonIntoEEBUSJson / JsonFromEEBUSJson on every document
   stage V  TLC monitor pass (MonJson.tla): wire form = required shape, round trip = document"""
import json
import os
import time

import vlib


def run_check(prop, tier):
    t0 = time.time()
    known = vlib.load_known()
    vlib.clear_replays(prop)
    level = "quick" if tier == "quick" else "thorough"
    with vlib.Scratch(prop) as sc:
        sd = vlib.spec_dir(sc)
        binp = vlib.build_harness(sc, "eebusjson")
        with open(os.path.join(sd, "EebusJsonM.cfg"), "w") as f:
            f.write('SPECIFICATION Spec\nCONSTANTS Emit = TRUE\n Level = "%s"\nINVARIANT P_C07\nINVARIANT EmitRow\nCHECK_DEADLOCK FALSE\n' % level)
        m = vlib.tlc(sd, "EebusJsonM", workers=4, timeout=3000)
        if m["error"] and not m["violated"]:
            raise vlib.Infra("TLC error in EebusJsonM: %s\n%s" % (m["error"], m["tail"]))
        if m["violated"]:
            raise vlib.Infra("stage M: the token model violates %s (not a verdict about the code)" % m["violated"])
        rows = list(vlib.tlc_lines(m["out_path"], "TEST"))
        for i, r in enumerate(rows):
            r["id"] = i
        print("stage M/G: %d documents enumerated, Benign => RoundTrip holds on the token model, %.0fs" % (m["distinct"], m["seconds"]))
        # the finding classes are witnessed on the model (a violated 'unwitnessed' invariant is the witness)
        for inv in ("KF_empty_array_unwitnessed", "KF_pattern_unwitnessed"):
            with open(os.path.join(sd, "EebusJsonW.cfg"), "w") as f:
                f.write('SPECIFICATION Spec\nCONSTANTS Emit = FALSE\n Level = "quick"\nINVARIANT %s\nCHECK_DEADLOCK FALSE\n' % inv)
            w = vlib.tlc(sd, "EebusJsonM", cfg="EebusJsonW.cfg", workers=4, timeout=900)
            if not w["violated"]:
                raise vlib.Infra("finding class of %s is not witnessed on the model" % inv)
        rp = os.path.join(sc, "rows.ndjson")
        with open(rp, "w") as f:
            for r in rows:
                f.write(json.dumps(r) + "\n")
        obs = os.path.join(sc, "obs.ndjson")
        rc, out = vlib.run([binp, "-rows", rp, "-obs", obs], timeout=1800)
        if rc != 0:
            crash = vlib.library_crash(out)
            if crash:
                path = vlib.save_replay(prop, "process-crash", dict(property=prop, key=["process-crash", crash], output_tail=out[-4000:]))
                vlib.finish(prop, [("process-crash/" + crash, path)], {}, [])
            raise vlib.Infra("harness eebusjson failed:\n" + out[-3000:])
        print(out.strip())
        with open(os.path.join(sd, "MonJsonRun.tla"), "w") as f:
            f.write("---- MODULE MonJsonRun ----\nEXTENDS MonJson\n====\n")
        with open(os.path.join(sd, "MonJsonRun.cfg"), "w") as f:
            f.write('SPECIFICATION Spec\nCONSTANT ObsFile = "%s"\nPOSTCONDITION Done\nCHECK_DEADLOCK FALSE\n' % obs)
        r = vlib.tlc(sd, "MonJsonRun", workers=1, timeout=3000)
        if r["error"]:
            raise vlib.Infra("monitor pass failed: %s\n%s" % (r["error"], r["tail"]))
        byid = {x["id"]: x for x in rows}
        violations, known_hits, seen = [], {}, set()
        nmon = 0
        for mon in vlib.tlc_lines(r["out_path"], "MON"):
            nmon += 1
            ks = vlib.key_str(mon["key"][1:])
            kf = vlib.classify(prop, mon["key"][1:], [], known)
            if kf:
                known_hits[kf["key"]] = kf["text"]
            elif ks not in seen and len(violations) < 20:
                seen.add(ks)
                path = vlib.save_replay(prop, "doc-%d" % mon["id"], dict(property=prop, key=mon["key"], jsondoc=byid[mon["id"]]))
                violations.append((ks, path))
        cov = dict(states=m["states"], transitions=m["states"], distinct_states=m["distinct"], traces_validated_against_impl=len(rows),
                   samples=[rows[len(rows) // 3]], documents=len(rows), monitor_violation_lines=nmon,
                   known_findings_hit=sorted(known_hits), exhaustive=True,
                   rule="every top-level object with up to two members whose values are scalars or containers of up to two scalars "
                        "(numbers incl. one beyond float64, literals, strings incl. brackets, commas, escaped quotes)")
        vlib.write_evidence(prop, tier, "model_checking", cov, time.time() - t0, len(violations),
                            assumptions=["documents are bounded trees over a token alphabet; the textual inverse is modelled on tokens",
                                         "the Go side renders / tokenises JSON text; encoding/json and the ordered-json library are trusted"])
        vlib.finish(prop, violations, known_hits, [])
