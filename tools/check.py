#!/usr/bin/env python3
"""check.py <property> [--tier quick|thorough]

exit 0: the property held on everything explored; exit 1 + 'VIOLATION property=<id> replay=<path>': violated by
the real code; exit 2: infrastructure failure (never a verdict)."""
import argparse
import os
import sys

sys.path.insert(0, os.path.dirname(os.path.abspath(__file__)))
import vlib  # noqa: E402


def main():
    ap = argparse.ArgumentParser()
    ap.add_argument("prop")
    ap.add_argument("--tier", default=os.environ.get("VERIF_TIER", "quick"), choices=["quick", "thorough"])
    a = ap.parse_args()
    import check_sme
    if a.prop in check_sme.ALL_PROPS:
        check_sme.run_check(a.prop, a.tier)
    elif a.prop in ("C15", "C10", "C18"):
        import check_hub
        check_hub.run_check(a.prop, a.tier)
    elif a.prop == "C05":
        import check_hub2
        check_hub2.run_check(a.prop, a.tier)
    elif a.prop == "C02":
        import check_cert
        check_cert.run_check(a.prop, a.tier)
    elif a.prop == "C07":
        import check_json
        check_json.run_check(a.prop, a.tier)
    elif a.prop == "C16":
        import check_text
        check_text.run_check(a.prop, a.tier)
    elif a.prop == "C19":
        import check_avahi
        check_avahi.run_check(a.prop, a.tier)
    elif a.prop == "C17":
        import check_mdns
        check_mdns.run_check(a.prop, a.tier)
    elif a.prop in ("C12", "C13"):
        import check_ws
        check_ws.run_check(a.prop, a.tier)
    elif a.prop == "C14":
        import check_timer
        check_timer.run_check(a.prop, a.tier)
    else:
        raise vlib.Infra("no check registered for " + a.prop)


if __name__ == "__main__":
    vlib.main_guard(main)
