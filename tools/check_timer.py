"""C14: a stopped or replaced handshake timer never fires.
   stage M  TLC: Timer.tla (setHandshakeTimer / stopHandshakeTimer as implemented) refines AbsTimer.tla
   stage G  TLC enumerates every arm / stop / re-arm / expire script up to a length (TimerGen.tla)
   stage R  harness/cmd/timer executes them on real connections with real timers, GOMAXPROCS=1 and default
   stage V  TLC monitor pass (MonTimer.tla, a timed AbsTimer) judges the recorded events"""
import json
import os
import time

import vlib

# the design the current tree implements ("shared" = unchanged tree, "perTimer" = after the repair)
DESIGN = "perTimer"


def run_check(prop, tier):
    t0 = time.time()
    known = vlib.load_known()
    vlib.clear_replays(prop)
    q = tier == "quick"
    with vlib.Scratch(prop) as sc:
        sd = vlib.spec_dir(sc)
        binp = vlib.build_harness(sc, "timer")
        # stage M
        cfg = "Timer_M.cfg"
        with open(os.path.join(sd, cfg), "w") as f:
            f.write('SPECIFICATION Spec\nCONSTANTS MaxArms = %d\n Design = "%s"\nPROPERTY Refines\nINVARIANT NoStaleFire\nCHECK_DEADLOCK FALSE\n'
                    % (4 if q else 6, DESIGN))
        m = vlib.tlc(sd, "Timer", cfg=cfg, workers=4, timeout=900)
        if m["error"] and not m["violated"]:
            raise vlib.Infra("TLC error in Timer: %s\n%s" % (m["error"], m["tail"]))
        if os.environ.get("VERIF_SKIP_M"):
            print("stage M skipped on request:", m["violated"])
        elif m["violated"] or "violated" in m["tail"]:
            raise vlib.Infra("stage M: Timer(%s) does not refine AbsTimer (not a verdict about the code)" % DESIGN)
        print("stage M: Timer(%s) refines AbsTimer, %d states" % (DESIGN, m["states"]))
        # Timer2: the two critical sections of setHandshakeTimer with two goroutines arming at the same time; the design
        # without the channel comparison at expiry is the negative control
        for name, design in (("Timer2_M", "asIs"), ("Timer2_N", "noChanCheck")):
            with open(os.path.join(sd, name + ".cfg"), "w") as f:
                f.write('SPECIFICATION Spec\nCONSTANTS MaxArms = %d\n Procs = {1, 2}\n Design = "%s"\n Readers = FALSE\nPROPERTY Refines\nPROPERTY StopHolds\nINVARIANT NoStaleFire\n'
                        'CHECK_DEADLOCK FALSE\n' % (4 if q else 5, design))
        # ... and with a reader that holds the timer's mutex for a moment: every critical section waits for it; a stop that
        # gives up when the mutex is busy (TryLock) is the second negative control
        for name, design in (("Timer2_R", "asIs"), ("Timer2_RN", "tryLockStop")):
            with open(os.path.join(sd, name + ".cfg"), "w") as f:
                f.write('SPECIFICATION Spec\nCONSTANTS MaxArms = %d\n Procs = {1, 2}\n Design = "%s"\n Readers = TRUE\nPROPERTY Refines\nPROPERTY StopHolds\nINVARIANT NoStaleFire\n'
                        'CHECK_DEADLOCK FALSE\n' % (3 if q else 4, design))
        m2 = vlib.tlc(sd, "Timer2", cfg="Timer2_M.cfg", workers=4, timeout=1800)
        if m2["error"] or m2["violated"]:
            raise vlib.Infra("stage M: Timer2 (concurrent arms) does not refine AbsTimer: %s" % (m2["violated"] or m2["error"]))
        n2 = vlib.tlc(sd, "Timer2", cfg="Timer2_N.cfg", workers=4, timeout=1800)
        if not n2["violated"]:
            raise vlib.Infra("stage M: the negative control of Timer2 (no channel comparison at expiry) was not violated")
        m3 = vlib.tlc(sd, "Timer2", cfg="Timer2_R.cfg", workers=4, timeout=1800)
        if m3["error"] or m3["violated"]:
            raise vlib.Infra("stage M: Timer2 with a reader on the mutex: %s" % (m3["violated"] or m3["error"]))
        n3 = vlib.tlc(sd, "Timer2", cfg="Timer2_RN.cfg", workers=4, timeout=1800)
        if not n3["violated"]:
            raise vlib.Infra("stage M: the negative control of Timer2 (a stop that gives up when the mutex is busy) was not violated")
        m["states"] += m2["states"] + m3["states"]
        print("stage M: Timer2 (two goroutines arming at once) refines AbsTimer, %d states; its negative control does not" % m2["states"])
        # stage G
        maxops = 4 if q else 5
        with open(os.path.join(sd, "TimerGen.cfg"), "w") as f:
            f.write("SPECIFICATION Spec\nCONSTANT MaxOps = %d\nACTION_CONSTRAINT Emit\nCHECK_DEADLOCK FALSE\n" % maxops)
        g = vlib.tlc(sd, "TimerGen", workers=1, timeout=900)
        if g["error"]:
            raise vlib.Infra("TLC error in TimerGen: %s\n%s" % (g["error"], g["tail"]))
        scripts = [dict(ops=ops) for ops in vlib.tlc_lines(g["out_path"], "TEST")]
        # also every shorter script whose last operation lets a timer expire or leaves one armed is a prefix of these
        for i, s in enumerate(scripts):
            s["id"] = i
        sp = os.path.join(sc, "scripts.ndjson")
        with open(sp, "w") as f:
            for s in scripts:
                f.write(json.dumps(s) + "\n")
        print("stage G: %d scripts of %d operations" % (len(scripts), maxops))
        # stage R + V, once per scheduler setting
        violations, known_hits, notes = [], {}, []
        total_div, total_fires, validated = 0, 0, 0
        for procs in ("1", ""):
            env = dict(vlib.GOENV)
            if procs:
                env["GOMAXPROCS"] = procs
            obs = os.path.join(sc, "obs%s.ndjson" % procs)
            summ = os.path.join(sc, "sum%s.json" % procs)
            rc, out = vlib.run([binp, "-scripts", sp, "-obs", obs, "-summary", summ], timeout=1800, env=env)
            if rc != 0:
                raise vlib.Infra("harness timer failed:\n" + out[-3000:])
            print("GOMAXPROCS=%s" % (procs or "default"), out.strip())
            s = json.load(open(summ))
            total_div += s["divergences"]
            total_fires += s["timeouts_delivered"]
            validated += s["scripts"]
            if s["divergences"]:
                notes.append("NONCONFORMANCE property=C14 GOMAXPROCS=%s %d scripts diverge, e.g. %s"
                             % (procs or "default", s["divergences"], s["divergence_samples"][0]))
            name = "MonT" + (procs or "d")
            with open(os.path.join(sd, name + ".tla"), "w") as f:
                f.write("---- MODULE %s ----\nEXTENDS MonTimer\n====\n" % name)
            with open(os.path.join(sd, name + ".cfg"), "w") as f:
                f.write('SPECIFICATION Spec\nCONSTANTS ObsFile = "%s"\n Margin = 50\nPOSTCONDITION Done\nCHECK_DEADLOCK FALSE\n' % obs)
            r = vlib.tlc(sd, name, workers=1, timeout=900)
            if r["error"]:
                raise vlib.Infra("monitor pass failed: %s\n%s" % (r["error"], r["tail"]))
            byid = {s2["id"]: s2 for s2 in scripts}
            for mon in vlib.tlc_lines(r["out_path"], "MON"):
                key = mon["key"][1:2]       # the numeric details are not part of the key
                kf = vlib.classify(prop, key, [], known)
                if kf:
                    known_hits[kf["key"]] = kf["text"]
                elif len(violations) < 10:
                    path = vlib.save_replay(prop, "script-%d-p%s" % (mon["id"], procs or "d"),
                                            dict(property=prop, key=mon["key"], gomaxprocs=procs or "default", script=byid[mon["id"]]))
                    violations.append((vlib.key_str(mon["key"][1:2]), path))
        cov = dict(states=m["states"] + g["states"], transitions=m["states"] + g["states"], traces_validated_against_impl=validated,
                   samples=[scripts[len(scripts) // 3]], scripts=len(scripts), timeouts_delivered=total_fires,
                   nonconformance=total_div, known_findings_hit=sorted(known_hits), exhaustive=True,
                   rule="every arm/stop/re-arm/expire script of %d operations over 2 durations and 2 gap classes, each run on a real "
                        "connection with real timers under GOMAXPROCS=1 and the default" % maxops)
        vlib.write_evidence(prop, tier, "model_checking", cov, time.time() - t0, len(violations),
                            assumptions=["a timeout delivered in pending-listen is observed as the prolongation request frame",
                                         "margin 50 ms separates 'well before expiry' from concurrent"])
        vlib.finish(prop, violations, known_hits, notes)
