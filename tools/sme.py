"""The SME pipeline: ShipSme model checking (stage M), behaviour generation (stage G), replay into the real
ship.ShipConnection (stage R) and the TLC monitor pass over the recorded observations (stage V)."""
import json
import os
import concurrent.futures

import smegen
import vlib

# as-is defects of the tree the specification currently describes (empty once every repair is committed)
DEFECTS = []


def cfg_dict(name, pair, role="server", paired=False, auto=False, wait=True, stored="none", storedC="none", timely=True):
    return dict(name=name, pair=pair, role=role, paired=paired, auto=auto, wait=wait, stored=stored, storedC=storedC,
                timely=timely)


def model_check(specdir, name, timeout=1500, workers="auto"):
    r = vlib.tlc(specdir, name, workers=workers, timeout=timeout)
    if r["error"] and not r["violated"]:
        raise vlib.Infra("TLC error in %s: %s\n%s" % (name, r["error"], r["tail"]))
    return r


def generate(specdir, name, cfgd, simulate=None, depth=None, tlc_seed=None, timeout=900, workers=1):
    """runs an emission configuration and returns the behaviours TLC printed (list of step lists)"""
    r = vlib.tlc(specdir, name, workers=workers, timeout=timeout, simulate=simulate, depth=depth, tlc_seed=tlc_seed)
    if r["error"]:
        raise vlib.Infra("TLC error while generating from %s: %s\n%s" % (name, r["error"], r["tail"]))
    tests = []
    seen = set()
    for rec in vlib.tlc_lines(r["out_path"], "TEST"):
        steps = rec["h"]
        if "l" in rec:
            steps[-1]["x"], steps[-1]["n"] = rec["l"]["x"], rec["l"]["n"]
            if "alt" in rec["l"]:
                steps[-1]["alt"] = rec["l"]["alt"]
            steps[-1]["q"] = bool(rec["l"].get("q", False))
        if simulate is not None:
            # the simulator evaluates the emission constraint on every successor of the last state: all of them are
            # behaviours of the specification; keep one per simulated behaviour
            key = json.dumps([s["a"] for s in steps[:-1]])
        else:
            key = json.dumps([s["a"] for s in steps])
        if key in seen:
            continue
        seen.add(key)
        steps = [s for s in steps if s["a"]["a"] != "Nop"]
        tests.append(dict(cfg=cfgd, steps=steps))
    os.remove(r["out_path"])
    return tests, r


def drop_prefixes(tests):
    """keeps only behaviours that are not a proper prefix of another kept behaviour (same configuration)"""
    by = {}
    for t in tests:
        by.setdefault(t["cfg"]["name"], []).append(t)
    out = []
    for name, ts in by.items():
        keys = [tuple(json.dumps(s["a"], sort_keys=True) for s in t["steps"]) for t in ts]
        order = sorted(range(len(ts)), key=lambda i: keys[i])
        for j, i in enumerate(order):
            if j + 1 < len(order):
                nxt = keys[order[j + 1]]
                if len(nxt) > len(keys[i]) and nxt[:len(keys[i])] == keys[i]:
                    continue
            out.append(ts[i])
    return out


def replay(scratch, binp, tests, tag, par=8192, timeout=3000):
    tp = os.path.join(scratch, "tests-%s.ndjson" % tag)
    with open(tp, "w") as f:
        for i, t in enumerate(tests):
            t["id"] = i
            f.write(json.dumps(t) + "\n")
    obs = os.path.join(scratch, "obs-%s.ndjson" % tag)
    summ = os.path.join(scratch, "summary-%s.json" % tag)
    rc, out = vlib.run([binp, "-tests", tp, "-obs", obs, "-summary", summ, "-par", str(par)], timeout=timeout)
    if rc != 0:
        raise vlib.Infra("harness sme failed (rc=%d):\n%s" % (rc, out[-4000:]))
    return obs, json.load(open(summ)), out.strip()


def monitor(specdir, obs_path, tag, timeout=1800):
    """TLC monitor pass over recorded observations; returns the list of MON records"""
    name = "MonRun_" + tag
    with open(os.path.join(specdir, name + ".tla"), "w") as f:
        f.write("---- MODULE %s ----\nEXTENDS MonSme\n====\n" % name)
    with open(os.path.join(specdir, name + ".cfg"), "w") as f:
        f.write('SPECIFICATION Spec\nCONSTANT ObsFile = "%s"\nPOSTCONDITION Done\nCHECK_DEADLOCK FALSE\n' % obs_path)
    r = vlib.tlc(specdir, name, workers=1, timeout=timeout, extra=["-Xss"] if False else [])
    if r["error"]:
        raise vlib.Infra("monitor pass failed: %s\n%s" % (r["error"], r["tail"]))
    mons = list(vlib.tlc_lines(r["out_path"], "MON"))
    os.remove(r["out_path"])
    return mons, r


def parallel(jobs, par=4):
    with concurrent.futures.ThreadPoolExecutor(par) as ex:
        return list(ex.map(lambda j: j(), jobs))
