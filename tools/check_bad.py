"""C08, the parts outside the SHIP state machine:
   mdns   MdnsBadGen.tla enumerates the table of awkward resolver inputs; harness/cmd/mdnsmgr -bad feeds every row to the
          resolver callback of a real mdns.MdnsManager; MonBad.tla judges the observations
   (the websocket side - frames a SHIP peer must never send - is part of the WsGen table: event peerBad, judged by MonWs
    for C12 / C13 and by the crash rule; collect() runs those rows as well and reports a process crash as C08)"""
import json
import os

import vlib


def collect_ws(prop, tier, events=("peerBad",), rule=None):
    """rows of the WsGen table with the given events on a real ws.WebsocketConnection, judged by MonWs.tla's formulas for prop
    (C08: frames a SHIP peer must never send; C06: a transport that is slow for a while loses nothing) and the crash rule"""
    known = vlib.load_known()
    q = tier == "quick"
    violations, known_hits = [], {}
    with vlib.Scratch(prop + "badws") as sc:
        sd = vlib.spec_dir(sc)
        binp = vlib.build_harness(sc, "wsconn")
        with open(os.path.join(sd, "WsGen.cfg"), "w") as f:
            f.write("SPECIFICATION Spec\nCONSTANTS MaxWriters = 3\n MaxK = 6\n Delays = {0, 40, 200%s}\n Long = FALSE\nCHECK_DEADLOCK FALSE\n"
                    % ("" if q else ", 20, 100, 1000"))
        g = vlib.tlc(sd, "WsGen", workers=1, timeout=600)
        if g["error"]:
            raise vlib.Infra("TLC error in WsGen: %s\n%s" % (g["error"], g["tail"]))
        scripts = [s for s in vlib.tlc_lines(g["out_path"], "TEST") if s["event"] in events]
        scripts.sort(key=lambda r: json.dumps(r, sort_keys=True))
        scripts = [dict(s) for _ in range(3 if q else 20) for s in scripts]
        for i, s in enumerate(scripts):
            s["id"] = i
        if not scripts:
            raise vlib.Infra("WsGen produced no rows for %s" % (events,))
        sp = os.path.join(sc, "scripts.ndjson")
        with open(sp, "w") as f:
            for s in scripts:
                f.write(json.dumps(s) + "\n")
        obs = os.path.join(sc, "obs.ndjson")
        rc, out = vlib.run([binp, "-scripts", sp, "-obs", obs, "-summary", os.path.join(sc, "sum.json")], timeout=3000)
        if rc != 0:
            crash = vlib.library_crash(out)
            if crash:
                path = vlib.save_replay(prop, "ws-process-crash", dict(property=prop, key=["process-crash", crash], output_tail=out[-6000:]))
                return dict(violations=[("process-crash/" + crash, path)], known_hits={}, notes=[], coverage=dict(rows=len(scripts), crashed=crash))
            raise vlib.Infra("harness wsconn failed:\n" + out[-3000:])
        print(out.strip())
        with open(os.path.join(sd, "MonWsRun.tla"), "w") as f:
            f.write("---- MODULE MonWsRun ----\nEXTENDS MonWs\n====\n")
        with open(os.path.join(sd, "MonWsRun.cfg"), "w") as f:
            f.write('SPECIFICATION Spec\nCONSTANT ObsFile = "%s"\nPOSTCONDITION Done\nCHECK_DEADLOCK FALSE\n' % obs)
        r = vlib.tlc(sd, "MonWsRun", workers=1, timeout=1800)
        if r["error"]:
            raise vlib.Infra("monitor pass (MonWs) failed: %s\n%s" % (r["error"], r["tail"]))
        byid = {s["id"]: s for s in scripts}
        notes = set()
        for mon in vlib.tlc_lines(r["out_path"], "MON"):
            if mon["key"][0] != prop:
                notes.add("formula of another property failed in this run: %s; run that property's check" % vlib.key_str(mon["key"]))
                continue
            kf = vlib.classify(prop, mon["key"][1:], [], known)
            if kf:
                known_hits[kf["key"]] = kf["text"]
            elif len(violations) < 10:
                path = vlib.save_replay(prop, "ws-script-%d" % mon["id"], dict(property=prop, key=mon["key"], wsscript=byid[mon["id"]]))
                violations.append((vlib.key_str(mon["key"][1:]), path))
        return dict(violations=violations, known_hits=known_hits, notes=sorted(notes),
                    coverage=dict(rows=len(scripts), rule=rule or "frames a SHIP peer must never send (text, 1 byte, empty, 1 MB, ping with payload) at "
                                                                  "every placement, followed by a regular frame, on a real ws.WebsocketConnection"))


def collect(prop, tier):
    known = vlib.load_known()
    q = tier == "quick"
    violations, known_hits, notes = [], {}, []
    with vlib.Scratch(prop + "bad") as sc:
        sd = vlib.spec_dir(sc)
        binp = vlib.build_harness(sc, "mdnsmgr")
        with open(os.path.join(sd, "MdnsBadGen.cfg"), "w") as f:
            f.write("SPECIFICATION Spec\nCONSTANTS NVals = 16\n NAddrs = 10\n Ports = %s\n Names = %s\n NPair = %d\nCHECK_DEADLOCK FALSE\n"
                    % ("{1, 2, 5}" if q else "{1, 2, 3, 4, 5, 6}", "{1}" if q else "{1, 2, 3}", 5 if q else 12))
        g = vlib.tlc(sd, "MdnsBadGen", workers=1, timeout=900)
        if g["error"]:
            raise vlib.Infra("TLC error in MdnsBadGen: %s\n%s" % (g["error"], g["tail"]))
        rows = list(vlib.tlc_lines(g["out_path"], "TEST"))
        rows.sort(key=lambda r: json.dumps(r, sort_keys=True))
        # rows meet the table state earlier rows left behind: rotate the order with the seed
        k = (vlib.seed() * 7919) % len(rows)
        rows = rows[k:] + rows[:k]
        for i, r in enumerate(rows):
            r["id"] = i
        rp = os.path.join(sc, "bad.ndjson")
        with open(rp, "w") as f:
            for r in rows:
                f.write(json.dumps(r) + "\n")
        obs = os.path.join(sc, "badobs.ndjson")
        rc, out = vlib.run([binp, "-bad", rp, "-obs", obs], timeout=3000)
        if rc != 0:
            crash = vlib.library_crash(out)
            if crash:
                path = vlib.save_replay(prop, "mdns-process-crash", dict(property=prop, key=["process-crash", crash], output_tail=out[-6000:]))
                return dict(violations=[("process-crash/" + crash, path)], known_hits={}, notes=[],
                            coverage=dict(rows=len(rows), crashed=crash))
            raise vlib.Infra("harness mdnsmgr -bad failed:\n" + out[-3000:])
        print(out.strip())
        # batches of 250 observations per line (one monitor step each)
        lines = [json.loads(x) for x in open(obs)]
        obs = os.path.join(sc, "badobs-batched.ndjson")
        with open(obs, "w") as f:
            for i in range(0, len(lines), 250):
                f.write(json.dumps(dict(rows=lines[i:i + 250])) + "\n")
        with open(os.path.join(sd, "MonBadRun.tla"), "w") as f:
            f.write("---- MODULE MonBadRun ----\nEXTENDS MonBad\n====\n")
        with open(os.path.join(sd, "MonBadRun.cfg"), "w") as f:
            f.write('SPECIFICATION Spec\nCONSTANT ObsFile = "%s"\nPOSTCONDITION Done\nCHECK_DEADLOCK FALSE\n' % obs)
        r = vlib.tlc(sd, "MonBadRun", workers=1, timeout=1800)
        if r["error"]:
            raise vlib.Infra("monitor pass (MonBad) failed: %s\n%s" % (r["error"], r["tail"]))
        byid = {r0["id"]: r0 for r0 in rows}
        nmon = 0
        for mon in vlib.tlc_lines(r["out_path"], "MON"):
            nmon += 1
            kf = vlib.classify(prop, mon["key"][1:], [], known)
            if kf:
                known_hits[kf["key"]] = kf["text"]
            elif len(violations) < 10:
                path = vlib.save_replay(prop, "mdns-row-%d" % mon["id"], dict(property=prop, key=mon["key"], badrow=byid.get(mon["id"])))
                violations.append((vlib.key_str(mon["key"][1:]), path))
        return dict(violations=violations, known_hits=known_hits, notes=notes,
                    coverage=dict(rows=len(rows), monitor_violation_lines=nmon,
                                  rule="every row of the MdnsBadGen table (one or two deviating TXT keys x value class x address "
                                       "list x port x name x add/remove) is one call of the real resolver callback"))
