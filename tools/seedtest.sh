#!/bin/bash
# seedtest.sh <patch file> <tier> <property>...
# Runs the registered checks against a seeded change WITHOUT touching /repo: the patch is applied to a scratch worktree of
# /repo (removed afterwards), the checks build against it (VERIF_REPO) and write their evidence to a scratch directory
# (VERIF_EVIDENCE), so /verif/evidence only ever holds runs against /repo itself.
root=$(cd "$(dirname "$(readlink -f "$0")")/.." && pwd)
patch=$(readlink -f "$1"); tier=$2; shift 2
wt=$(mktemp -d /tmp/seedwt-XXXXXX); ev=$(mktemp -d /tmp/seedev-XXXXXX)
git -C /repo worktree add --detach "$wt" HEAD >/dev/null 2>&1 || { echo "cannot create worktree"; exit 2; }
trap 'git -C /repo worktree remove --force "$wt" >/dev/null 2>&1; rm -rf "$wt" "$ev"' EXIT
( cd "$wt" && { git apply "$patch" 2>/dev/null || git apply -3 "$patch"; } ) || { echo "patch does not apply"; exit 2; }
for p in "$@"; do
  echo "=== $p ($tier) with $(basename $(dirname $patch))/$(basename $patch)"
  (cd "$root" && VERIF_REPO="$wt" VERIF_EVIDENCE="$ev" python3 tools/check.py $p --tier $tier 2>&1 | tail -12; echo "exit=${PIPESTATUS[0]}")
done
