#!/bin/bash
# seedtest.sh <patch file> <tier> <property>...   applies a seeded change to /repo, runs the checks, undoes it
patch=$1; tier=$2; shift 2
cd /repo || exit 2
if [ -n "$(git status --porcelain)" ]; then echo "/repo is not clean"; exit 2; fi
git apply "$patch" || { echo "patch does not apply"; exit 2; }
for p in "$@"; do
  echo "=== $p ($tier) with $(basename $(dirname $patch))/$(basename $patch)"
  (cd /verif && python3 tools/check.py $p --tier $tier 2>&1 | tail -12; echo "exit=${PIPESTATUS[0]}")
done
git checkout -- . && git status --porcelain
